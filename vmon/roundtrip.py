# -*- coding: utf-8 -*-
"""Round-trip oracles shared by C01 (compose -> parse) and C05 (parse -> compose -> parse -> compose)."""
from vmon import inventory, pipeline, structural


def parse_owner(cls):
    for klass in cls.__mro__:
        if '_parse' in klass.__dict__:
            return klass.__name__
    return cls.__name__


def exc_key(stage, exc):
    exc_type, raising, owner = pipeline.exception_signature(exc)
    return '%s|%s|%s|%s' % (stage, raising, owner, exc_type)


def value_key(stage, cls, state_a, state_b):
    """<stage>|<concrete class of the innermost object holding the differing field>|<relative path>"""
    holder, path = structural.diff_locus(state_a, state_b)
    return '%s|%s|%s' % (stage, holder.split('.')[-1] if holder else cls.__name__, path or '<root>')


def compose_then_parse(cls, obj):
    """C01 oracle. Returns (list of (key, what), composed bytes or None)."""
    found = []
    try:
        composed = pipeline.compose_of(obj, cls)
    except Exception as e:  # pylint: disable=broad-except
        return [(exc_key('compose-raises', e), 'compose() of a constructed %s raised %r' % (cls.__name__, e))], None
    state = structural.deep_state(obj)
    try:
        parsed, consumed = cls.parse_immutable(composed)
    except Exception as e:  # pylint: disable=broad-except
        return [(exc_key('reparse-rejects', e),
                 'the parser of %s rejects the bytes its own compose() produced (%s..): %r' % (
                     cls.__name__, composed[:40].hex(), e))], composed
    if consumed != len(composed):
        found.append(('reparse-partial|%s' % parse_owner(cls),
                      '%s.compose() produced %d bytes but its parser consumed %d' % (cls.__name__, len(composed), consumed)))
    parsed_state = structural.deep_state(parsed)
    if parsed_state != state:
        found.append((value_key('differs', cls, state, parsed_state),
                      '%s: parse(compose(o)) differs from o at %s (bytes %s..)' % (
                          cls.__name__, structural.diff_path(state, parsed_state), composed[:40].hex())))
    else:
        try:
            exact = cls.parse_exact_size(composed)
            if structural.deep_state(exact) != state:
                found.append(('exact-differs|%s' % parse_owner(cls), 'parse_exact_size(compose(o)) differs from o'))
        except Exception as e:  # pylint: disable=broad-except
            found.append((exc_key('exact-rejects', e), 'parse_exact_size rejects compose(o): %r' % e))
    return found, composed


def canonical_form(cls, data):
    """C05 oracle on an accepted input. Returns (accepted?, list of (key, what), info dict)."""
    allowed = pipeline.parse_errors()
    try:
        first, consumed = cls.parse_immutable(data)
    except allowed:
        return False, [], {}
    except Exception:  # pylint: disable=broad-except
        return False, [], {'leak': True}
    accepted = data[:consumed]
    found = []
    info = {'consumed': consumed}
    try:
        second_bytes = pipeline.compose_of(first, cls)
    except Exception as e:  # pylint: disable=broad-except
        return True, [(exc_key('compose-raises', e),
                       '%s accepts %s.. but composing the parsed object raises %r' % (cls.__name__, accepted[:40].hex(), e))], info
    info['canonical'] = second_bytes != accepted
    state = structural.deep_state(first)
    try:
        second, consumed_again = cls.parse_immutable(second_bytes)
    except Exception as e:  # pylint: disable=broad-except
        return True, [(exc_key('reparse-rejects', e),
                       '%s: compose(parse(%s..)) = %s.. is rejected by the same parser: %r' % (
                           cls.__name__, accepted[:32].hex(), second_bytes[:32].hex(), e))], info
    if consumed_again != len(second_bytes):
        found.append(('reparse-partial|%s' % parse_owner(cls),
                      '%s: compose(parse(x)) has %d bytes, the parser consumes %d' % (
                          cls.__name__, len(second_bytes), consumed_again)))
    second_state = structural.deep_state(second)
    if second_state != state:
        found.append((value_key('differs', cls, state, second_state),
                      '%s: %s.. -> compose -> parse changes the object at %s (canonical %s..)' % (
                          cls.__name__, accepted[:32].hex(), structural.diff_path(state, second_state),
                          second_bytes[:32].hex())))
        return True, found, info
    try:
        third_bytes = pipeline.compose_of(second, cls)
        if third_bytes != second_bytes:
            found.append(('not-idempotent|%s' % parse_owner(cls),
                          '%s: composing the re-parsed object gives different bytes (%s.. vs %s..)' % (
                              cls.__name__, third_bytes[:32].hex(), second_bytes[:32].hex())))
    except Exception as e:  # pylint: disable=broad-except
        found.append((exc_key('recompose-raises', e), repr(e)))
    return True, found, info
