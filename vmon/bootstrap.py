# -*- coding: utf-8 -*-
"""Locates the repository under test and makes it (and /verif/.deps) importable.

VERIF_REPO (default /repo) is put first on sys.path so that the *working tree* is what is
imported, never an installed copy; init() asserts that.
"""
import importlib
import os
import pkgutil
import sys
import warnings

VERIF = os.path.dirname(os.path.dirname(os.path.abspath(__file__)))
REPO = os.path.abspath(os.environ.get('VERIF_REPO', '/repo'))
DEPS = os.path.join(VERIF, '.deps')
WORK = os.path.join(VERIF, '.work')

_initialised = False
ICONTRACT = 'unavailable'


def seed():
    try:
        return int(os.environ.get('VERIF_SEED', '0'))
    except ValueError:
        return 0


def init():
    """Import every cryptoparser module from REPO. Returns the list of module objects."""
    global _initialised, ICONTRACT  # pylint: disable=global-statement
    if REPO not in sys.path[:1]:
        sys.path.insert(0, REPO)
    if DEPS not in sys.path:
        sys.path.append(DEPS)  # after site-packages: its six/typing_extensions never shadow the repo's
    warnings.simplefilter('ignore', DeprecationWarning)
    import cryptoparser  # pylint: disable=import-outside-toplevel
    where = os.path.abspath(os.path.dirname(cryptoparser.__file__))
    if not where.startswith(REPO + os.sep):
        raise RuntimeError('cryptoparser imported from %s, expected under %s' % (where, REPO))
    modules = []
    for info in pkgutil.walk_packages(cryptoparser.__path__, 'cryptoparser.'):
        if info.name.endswith('__setup__'):
            continue
        modules.append(importlib.import_module(info.name))
    try:
        import icontract  # pylint: disable=import-outside-toplevel,unused-import
        ICONTRACT = 'real ' + getattr(icontract, '__version__', '?')
    except Exception:  # pylint: disable=broad-except
        ICONTRACT = 'unavailable'
    _initialised = True
    os.makedirs(WORK, exist_ok=True)
    return modules
