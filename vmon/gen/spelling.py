# -*- coding: utf-8 -*-
"""W-grammar: spelling variants that the governing RFC declares insignificant, per supported type.

Each type lists only the variant classes its RFC allows (clause cited). Whitespace inside tokens, around '='
where the grammar has no implied LWS, and reordering of order-significant lists (SPF terms, CSP sources)
are NOT generated (false-alarm hazard).
"""

# variant classes
NAME_CASE, OWS, EMPTY, REORDER, QUOTE, UNKNOWN, VALUE_CASE, MULTI_SPACE, TRAILING_SPACE, OVERRIDDEN = (
    'name-case', 'ows', 'empty-element', 'reorder', 'quote', 'unknown-directive', 'value-case', 'multi-space',
    'trailing-space', 'overridden-attribute')

SPF_NAMES = ('all', 'include', 'a', 'mx', 'ptr', 'ip4', 'ip6', 'exists', 'redirect', 'exp')

TYPES = {
    # RFC 6797 6.1: directive names case-insensitive, OWS around ';', empty directives allowed (*( ";" [ directive ] )),
    # order not significant, unknown directives ignored, value may be token or quoted-string
    'cryptoparser.httpx.header:HttpHeaderFieldValueSTS': dict(
        sep=';', variants=(NAME_CASE, OWS, EMPTY, REORDER, QUOTE, UNKNOWN), quotable=('max-age', ), keep_first=0),
    # RFC 9163 2.1 (Expect-CT): comma separated, names case-insensitive, OWS, order free, unknown ignored
    'cryptoparser.httpx.header:HttpHeaderFieldValueExpectCT': dict(
        sep=',', variants=(NAME_CASE, OWS, EMPTY, REORDER, UNKNOWN), quotable=(), keep_first=0),
    # Expect-Staple (draft): same grammar family as HSTS
    'cryptoparser.httpx.header:HttpHeaderFieldValueExpectStaple': dict(
        sep=';', variants=(NAME_CASE, OWS, EMPTY, REORDER, UNKNOWN), quotable=(), keep_first=0),
    # RFC 7469 2.1 (HPKP): names case-insensitive, OWS, order free, unknown ignored, quoted-string or token values
    'cryptoparser.httpx.header:HttpHeaderFieldValuePublicKeyPinning': dict(
        sep=';', variants=(NAME_CASE, OWS, EMPTY, REORDER, UNKNOWN), quotable=(), keep_first=0),
    # RFC 9111 5.2: directives case-insensitive, #rule list (RFC 9110 5.6.1: OWS, empty elements), unknown ignored
    'cryptoparser.httpx.header:HttpHeaderFieldValueCacheControlResponse': dict(
        sep=',', variants=(NAME_CASE, OWS, EMPTY, REORDER, UNKNOWN), quotable=(), keep_first=0),
    # RFC 6265 5.2: attribute names case-insensitive, OWS around ';', unknown attributes ignored, order free;
    # the name=value pair stays first and untouched
    'cryptoparser.httpx.header:HttpHeaderFieldValueSetCookie': dict(
        sep=';', variants=(NAME_CASE, OWS, REORDER, UNKNOWN, EMPTY, OVERRIDDEN), quotable=(), keep_first=1),   # 5.2 step 3-4: empty attributes are skipped;
    # 5.3 steps 3-7 ("the last attribute in the cookie-attribute-list with an attribute-name of ..."): an earlier attribute
    # of the same name is overridden
    # RFC 9110 8.3.1: type/subtype and parameter names case-insensitive, OWS around ';'; media type stays first
    'cryptoparser.httpx.header:HttpHeaderFieldValueContentType': dict(
        sep=';', variants=(NAME_CASE, OWS, VALUE_CASE), quotable=(), keep_first=1, first_case=True),
    # no governing RFC: only the generic OWS around ';'
    'cryptoparser.httpx.header:HttpHeaderFieldValueXXSSProtection': dict(
        sep=';', variants=(OWS, ), quotable=(), keep_first=1),
    # CSP3 2.1/2.2: ';'-separated directives, optional ASCII whitespace around ';', empty directives ignored. The library
    # keeps the directives as an ordered list, so reordering (semantically free) is NOT generated; unknown directives
    # are ignored by user agents but rejected by the library's variant parser: not generated either
    'cryptoparser.httpx.header:HttpHeaderFieldValueContentSecurityPolicy': dict(
        sep=';', variants=(OWS, EMPTY, MULTI_SPACE), quotable=(), keep_first=0, kv=' '),
    # RFC 7489 6.4: tag-list, WSP around ';' and '=', v first then p, others in any order, unknown tags ignored,
    # trailing ';' allowed
    'cryptoparser.dnsrec.txt:DnsRecordTxtValueDmarc': dict(
        sep=';', variants=(OWS, EMPTY, REORDER, UNKNOWN), quotable=(), keep_first=2),
    # RFC 8461 3.1: fields separated by ';' with optional WSP, v first, unknown fields ignored
    'cryptoparser.dnsrec.txt:DnsRecordTxtValueMtaSts': dict(
        sep=';', variants=(OWS, EMPTY, UNKNOWN), quotable=(), keep_first=1, compare='recognised'),
    # RFC 8460 3: same family
    'cryptoparser.dnsrec.txt:DnsRecordTxtValueTlsRpt': dict(
        sep=';', variants=(OWS, EMPTY, UNKNOWN), quotable=(), keep_first=1, compare='recognised'),
    # RFC 7208 4.6.1 / 12: terms separated by 1*SP, mechanism and modifier names case-insensitive, trailing SP allowed
    'cryptoparser.dnsrec.txt:DnsRecordTxtValueSpf': dict(
        sep=' ', variants=(MULTI_SPACE, TRAILING_SPACE, NAME_CASE), quotable=(), keep_first=1, kv=':='),
}


# further semantic values per type (valid spellings with empty values, zero numbers, single and many elements): the corpus
# harvested from the repository's tests has one or two values per type
EXTRA_VALUES = {
    'cryptoparser.httpx.header:HttpHeaderFieldValueSetCookie': (
        'sid=; Max-Age=0', 'a=', 'name=value; Path=/; Secure', 'k=v; Domain=example.com; HttpOnly; SameSite=Strict',
        'x=y; Max-Age=86400', 'sid=abc; Expires=Thu, 01 Jan 1970 00:00:00 GMT'),
    'cryptoparser.httpx.header:HttpHeaderFieldValueSTS': (
        'max-age=0', 'max-age=31536000; includeSubDomains', 'max-age=63072000; includeSubDomains; preload'),
    'cryptoparser.httpx.header:HttpHeaderFieldValueExpectCT': ('max-age=0', 'max-age=86400, enforce'),
    'cryptoparser.httpx.header:HttpHeaderFieldValueCacheControlResponse': (
        'no-store', 'max-age=0', 'public, max-age=604800', 'private, no-cache, must-revalidate', 's-maxage=10, proxy-revalidate'),
    'cryptoparser.httpx.header:HttpHeaderFieldValueContentType': ('text/plain', 'application/json; charset=utf-8'),
    'cryptoparser.httpx.header:HttpHeaderFieldValueXXSSProtection': ('0', '1', '1; mode=block'),
    'cryptoparser.httpx.header:HttpHeaderFieldValueContentSecurityPolicy': (
        "default-src 'none'", "default-src 'self'; img-src *; script-src 'self' https://example.com", 'upgrade-insecure-requests',
        "script-src 'self' 'unsafe-inline' https://a.example https://b.example data:; object-src 'none'",
        # one value per kind of directive the library knows (reporting, navigation, document and the remaining fetch ones)
        "default-src 'self'; report-to csp-endpoint", 'report-to endpoint-1', "webrtc 'allow'", "webrtc 'block'",
        'report-uri /csp https://example.com/r', 'sandbox', 'sandbox allow-forms allow-scripts', "frame-ancestors 'none'",
        "frame-ancestors 'self' https://example.com", 'plugin-types application/pdf', "base-uri 'self'", "form-action 'self'",
        'block-all-mixed-content', "require-trusted-types-for 'script'", 'worker-src blob:', "prefetch-src 'self'",
        "manifest-src 'self'; child-src 'none'", "script-src-elem 'self'; script-src-attr 'none'; style-src-elem 'self'; style-src-attr 'none'",
        "default-src 'self'; sandbox allow-forms; report-uri /r; report-to g; webrtc 'block'; upgrade-insecure-requests"),
    'cryptoparser.dnsrec.txt:DnsRecordTxtValueSpf': (
        'v=spf1 -all', 'v=spf1 x= -all', 'v=spf1 a mx ~all', 'v=spf1 +mx ?a ~include:x.example +ip4:192.0.2.1 -all', 'v=spf1 +all',
        'v=spf1 a/0 mx:example.com/24/0 a:x.example/0/128 mx/32 ip4:0.0.0.0/0 ip6:::/0 -all', 'v=spf1 a/0 -all', 'v=spf1 mx/0/0 ~all', 'v=spf1 mx', 'v=spf1 a', 'v=spf1 include:x a', 'v=spf1 -all x=1', 'v=spf1 a/24', 'v=spf1 ptr', 'v=spf1 ip4:192.0.2.0/24 ip6:2001:db8::/32 include:example.net ?all',
        'v=spf1 redirect=example.org', 'v=spf1 a:a.example mx:b.example/24 exists:%{i}.c.example -all'),
    'cryptoparser.httpx.header:HttpHeaderFieldValueNetworkErrorLogging': (
        '{"report_to": "x", "max_age": 0}', '{"report_to": "x", "max_age": 1, "include_subdomains": false}',
        '{"report_to": "x", "max_age": 86400, "include_subdomains": true, "success_fraction": 0.0, "failure_fraction": 0}',
        '{"report_to": "group", "max_age": 2592000, "success_fraction": 1.0, "failure_fraction": 0.5}'),
    'cryptoparser.dnsrec.txt:DnsRecordTxtValueDmarc': (
        'v=DMARC1; p=none', 'v=DMARC1; p=reject; rua=mailto:a@example.com; pct=100', 'v=DMARC1; p=none; ruf=mailto:f@example.com?subject=fail', 'v=DMARC1; p=quarantine; sp=none; adkim=s; aspf=r'),
    'cryptoparser.dnsrec.txt:DnsRecordTxtValueMtaSts': ('v=STSv1; id=1', 'v=STSv1; id=20160831085700Z'),
    'cryptoparser.dnsrec.txt:DnsRecordTxtValueTlsRpt': (
        'v=TLSRPTv1; rua=mailto:a@example.com', 'v=TLSRPTv1; rua=https://example.com/report',
        'v=TLSRPTv1; rua=mailto:a@example.com?subject=TLS%20report', 'v=TLSRPTv1; rua=https://example.com/report?site=a#frag'),
}


# accepted inputs at the edges of a grammar that the harvested corpus does not hold (tools/mkextra.py files them in the corpus,
# so every corpus-driven check starts from them on every seed instead of waiting for a mutation to hit them)
EDGE_INPUTS = {
    'cryptoparser.ssh.subprotocol:SshProtocolMessage': (
        b'SSH-2.0-OpenSSH_8.9 \r\n',            # comment present but empty
        b'SSH-2.0-OpenSSH_8.9 \n',              # the same, bare LF
        b'SSH-2.0-x  \r\n',                     # comment of one blank
        b'SSH-1.99-Cisco-1.25\n', b'SSH-2.0-dropbear_2020.81\r\n', b'SSH-2.0-OpenSSH_8.9p1 Ubuntu-3ubuntu0.1\r\n',
        b'SSH-2.0-OpenSSH_for_Windows_8.1 some comment with blanks\r\n'),
    'cryptoparser.tls.mysql:MySQLHandshakeV10': (
        # CLIENT_PLUGIN_AUTH with an empty plugin name: the packet ends with the NUL of the name right after the scramble
        bytes.fromhex('0a352e372e333300070000003132333435363738000082010000080015000000000000000000006162636465666768696a6b6c0000'), ),
}


def split_top(text, sep):
    """Split at `sep` outside double quotes."""
    parts, current, quoted = [], '', False
    for char in text:
        if char == '"':
            quoted = not quoted
        if char == sep and not quoted:
            parts.append(current)
            current = ''
        else:
            current += char
    parts.append(current)
    return parts


def _name_end(part, kv):
    positions = [part.find(ch) for ch in kv if part.find(ch) >= 0]
    return min(positions) if positions else len(part)


def _recase(text, rng):
    mode = rng.randrange(3)
    if mode == 0:
        return text.upper()
    if mode == 1:
        return text.lower()
    return ''.join(ch.upper() if rng.random() < 0.5 else ch.lower() for ch in text)


def variants(name, canon, rng, count, only=None):  # pylint: disable=too-many-branches,too-many-locals,too-many-statements
    """Yield (variant classes used, text) derived from the canonical spelling of one value."""
    config = TYPES[name]
    sep = config['sep']
    kv = config.get('kv', '=')
    raw_parts = [part.strip(' \t') for part in split_top(canon, sep)]
    raw_parts = [part for part in raw_parts if part]
    allowed = config['variants'] if only is None else tuple(v for v in config['variants'] if v in only)
    if not allowed:
        return
    for _ in range(count):
        used = set()
        head = list(raw_parts[:config['keep_first']])
        tail = list(raw_parts[config['keep_first']:])
        chosen = [v for v in allowed if rng.random() < 0.45] or [rng.choice(allowed)]
        if REORDER in chosen and len(tail) > 1:
            shuffled = tail[:]
            rng.shuffle(shuffled)
            if shuffled != tail:
                tail = shuffled
                used.add(REORDER)
        if config.get('first_case') and VALUE_CASE in chosen and head:
            end = _name_end(head[0], ';')
            head[0] = _recase(head[0][:end], rng) + head[0][end:]
            used.add(VALUE_CASE)
        if NAME_CASE in chosen:
            start = 1 if name.endswith('Spf') else 0    # 'v=spf1' is a fixed literal matched case-insensitively too, left alone
            new_tail = []
            for part in tail:
                body = part
                prefix = ''
                if name.endswith('Spf') and body[:1] in '+-~?':
                    prefix, body = body[0], body[1:]
                end = _name_end(body, kv)
                if name.endswith('Spf') and body[:end].lower() not in SPF_NAMES:
                    new_tail.append(part)       # unknown modifier: its name is data, kept verbatim by design
                    continue
                new_tail.append(prefix + _recase(body[:end], rng) + body[end:])
            if new_tail != tail:
                used.add(NAME_CASE)
            tail = new_tail
            del start
        if QUOTE in chosen:
            new_tail = []
            for part in tail:
                end = _name_end(part, kv)
                if part[:end].lower() in config['quotable'] and end < len(part) and not part[end + 1:].startswith('"'):
                    part = part[:end + 1] + '"' + part[end + 1:] + '"'
                    used.add(QUOTE)
                new_tail.append(part)
            tail = new_tail
        if OVERRIDDEN in chosen and REORDER not in used:
            earlier = {'path': 'Path=/overridden', 'domain': 'Domain=overridden.example', 'max-age': 'Max-Age=7',
                       'samesite': 'SameSite=Lax', 'expires': 'Expires=Wed, 21 Oct 2015 07:28:00 GMT'}
            for position, part in enumerate(tail):
                attribute = part[:_name_end(part, kv)].lower()
                if attribute in earlier and earlier[attribute].lower() != part.lower():
                    tail.insert(rng.randrange(position + 1), earlier[attribute])
                    used.add(OVERRIDDEN)
                    break
        if UNKNOWN in chosen:
            extra = rng.choice(['x-unknown=1', 'x-verif-ext', 'zz-ext=abc'] if sep != ' ' else ['x-unknown=1'])
            if name.endswith(('Dmarc', 'MtaSts', 'TlsRpt')):
                extra = rng.choice(['x-unknown=1', 'zz=abc'])
            tail.insert(rng.randrange(len(tail) + 1), extra)
            used.add(UNKNOWN)
        parts = head + tail
        pieces = []
        for index, part in enumerate(parts):
            pieces.append(part)
            if index == len(parts) - 1:
                break
            separator = sep
            if sep == ' ':
                separator = ' ' * (rng.choice((2, 3, 5)) if MULTI_SPACE in chosen and rng.random() < 0.6 else 1)
                if len(separator) > 1:
                    used.add(MULTI_SPACE)
            else:
                if OWS in chosen:
                    before = rng.choice(('', ' ', '  ', '\t', ' \t', '\t ', '\t\t', ' \t '))
                    after = rng.choice(('', ' ', '  ', ' \t ', '\t', '\t ', ' \t'))
                    if (before, after) != ('', ' '):
                        used.add(OWS)
                    separator = before + sep + after
                else:
                    separator = sep + ' '
                if EMPTY in chosen and rng.random() < 0.4:
                    separator = separator + sep + (' ' if rng.random() < 0.5 else '')
                    used.add(EMPTY)
            pieces.append(separator)
        text = ''.join(pieces)
        if sep != ' ' and EMPTY in chosen and rng.random() < 0.5:
            text += rng.choice((sep, sep + ' ', ' ' + sep))
            used.add(EMPTY)
        if sep == ' ' and MULTI_SPACE in chosen and kv == ' ':
            pass
        if config.get('kv') == ' ' and MULTI_SPACE in chosen:
            # CSP: several spaces between a directive name and its source expressions / between source expressions
            text = text.replace(' ', '  ', rng.randrange(1, 4)) if ' ' in text else text
            used.add(MULTI_SPACE)
        if TRAILING_SPACE in chosen:
            text += ' ' * rng.randrange(1, 3)
            used.add(TRAILING_SPACE)
        if used and text != canon:
            yield tuple(sorted(used)), text
