# -*- coding: utf-8 -*-
"""W-construct for SSH: library objects and reference encodings (vmon/ref/ssh.py) from the same choices."""
import datetime

from vmon.gen.tls import Pair, guarded, pick_len, rbytes
from vmon.ref import ssh as ref

UTC = datetime.timezone.utc


def _mods():
    import cryptoparser.ssh.key as key  # pylint: disable=import-outside-toplevel
    import cryptoparser.ssh.record as record  # pylint: disable=import-outside-toplevel
    import cryptoparser.ssh.subprotocol as sub  # pylint: disable=import-outside-toplevel
    import cryptoparser.ssh.version as version  # pylint: disable=import-outside-toplevel
    import cryptodatahub.ssh.algorithm as alg  # pylint: disable=import-outside-toplevel
    import cryptodatahub.common.key as ckey  # pylint: disable=import-outside-toplevel
    import cryptodatahub.common.algorithm as calg  # pylint: disable=import-outside-toplevel
    return key, record, sub, version, alg, ckey, calg


def big_int(rng):
    """Non-negative integers at the boundary bit lengths 8k-1, 8k, 8k+1."""
    bits = rng.choice([0, 1, 7, 8, 9, 15, 16, 17, 31, 32, 33, 63, 64, 65, 127, 128, 129, 255, 256, 257, 511, 512, 513,
                       1023, 1024, 1025, 2047, 2048, 2049, 3072, 4095, 4096, rng.randrange(1, 2100)])
    if bits == 0:
        return 0
    return rng.getrandbits(bits) | (1 << (bits - 1))


def sized_int(rng):
    """The size-defining parameter of a key (RSA modulus, DSA prime): at least 16 bits, odd."""
    value = big_int(rng)
    while value.bit_length() < 16:
        value = big_int(rng)
    return value | 1


def name_list(rng, enum_class, low=0, high=8):
    names_lib, names = [], []
    members = list(enum_class)
    for _ in range(pick_len(rng, low, high)):
        if rng.random() < 0.2:
            text = rng.choice(['unknown-algo@example.com', 'x', 'zz-%d' % rng.randrange(1000), 'none@verif', 'a.b-c_d'])
            if rng.random() < 0.4:
                # names that differ from a registered one only in letter case, or by a prefix / suffix: RFC 4250 4.6.1 names are
                # case-sensitive, so these are other, unknown algorithms and go into HASSH as they are on the wire
                code = rng.choice(members).value.code
                variant = rng.choice([code.upper(), code.capitalize(), code.swapcase(), code + '@verif', code[:-1], 'x' + code])
                if variant not in (member.value.code for member in members):
                    text = variant
            names_lib.append(text)
            names.append(text)
        else:
            member = rng.choice(members)
            names_lib.append(member)
            names.append(member.value.code)
    return names_lib, names


# ------------------------------------------------------------------------------------------ keys
def host_key(rng, kind=None, all_curves=True):
    """(library key object, RFC 4253 blob, algorithm name, key fields)"""
    key, _, _, _, alg, ckey, calg = _mods()
    kind = kind or rng.choice(['rsa', 'rsa', 'dss', 'ecdsa', 'ed25519'])
    if kind == 'rsa':
        name = 'ssh-rsa'
        exponent = rng.choice([3, 17, 65537, big_int(rng) | 1])
        modulus = sized_int(rng)
        public = ckey.PublicKey.from_params(ckey.PublicKeyParamsRsa(modulus=modulus, public_exponent=exponent))
        fields = ref.key_fields_rsa(exponent, modulus)
        cls = key.SshHostKeyRSA
    elif kind == 'dss':
        name = 'ssh-dss'
        p, q, g, y = sized_int(rng), big_int(rng) | 1, big_int(rng), big_int(rng)  # pylint: disable=invalid-name
        public = ckey.PublicKey.from_params(ckey.PublicKeyParamsDsa(prime=p, generator=g, order=q, public_key_value=y))
        fields = ref.key_fields_dss(p, q, g, y)
        cls = key.SshHostKeyDSS
    elif kind == 'ecdsa':
        # the three required curves by name, the others by the OID that identifies them inside the blob (RFC 5656 6.1 / 10.2);
        # the key format names of the latter are the ones of the library's algorithm table
        curve, size, name = rng.choice([('nistp256', 32, None), ('nistp384', 48, None), ('nistp521', 66, None)] * 2 + ([] if not all_curves else [
            ('1.3.132.0.1', 21, 'ecdsa-sha2-nistk163'), ('1.2.840.10045.3.1.1', 24, 'ecdsa-sha2-nistp192'),
            ('1.3.132.0.33', 28, 'ecdsa-sha2-nistp224'), ('1.3.132.0.26', 30, 'ecdsa-sha2-nistk233'),
            ('1.3.132.0.27', 30, 'ecdsa-sha2-nistb233'), ('1.3.132.0.16', 36, 'ecdsa-sha2-nistk283'),
            ('1.3.132.0.36', 52, 'ecdsa-sha2-nistk409'), ('1.3.132.0.37', 52, 'ecdsa-sha2-nistb409'),
            ('1.3.132.0.38', 72, 'ecdsa-sha2-nistt571')]))
        name = name or 'ecdsa-sha2-' + curve
        # coordinates with zero bytes at either end: the point is a fixed-width octet string (SEC 1 2.3.3)
        top = {'nistp521': 2, '1.3.132.0.1': 8, '1.3.132.0.26': 2, '1.3.132.0.27': 2, '1.3.132.0.16': 8, '1.3.132.0.36': 2,
               '1.3.132.0.37': 2, '1.3.132.0.38': 8}.get(curve, 256)     # field sizes that are not a whole number of octets
        x_bytes = bytes([rng.choice([0, 0, rng.randrange(top)])]) + rbytes(rng, size - 1)
        y_bytes = bytes([rng.choice([0, 0, rng.randrange(top)])]) + rbytes(rng, size - 1)
        if rng.random() < 0.1:
            y_bytes = y_bytes[:-1] + b'\x00'
        point = b'\x04' + x_bytes + y_bytes
        identifier = next(m for m in alg.SshEllipticCurveIdentifier if m.value.code == curve)
        public = ckey.PublicKey.from_params(ckey.PublicKeyParamsEcdsa.from_octet_bit_string(identifier.value.named_group, point))
        fields = ref.key_fields_ecdsa(curve, point)
        cls = key.SshHostKeyECDSA
    else:
        name = 'ssh-ed25519'
        data = rbytes(rng, 32)
        public = ckey.PublicKey.from_params(ckey.PublicKeyParamsEddsa(curve_type=calg.NamedGroup.CURVE25519, key_data=data))
        fields = ref.key_fields_ed25519(data)
        cls = key.SshHostKeyEDDSA
    algorithm = alg.SshHostKeyAlgorithm.from_code(name)
    return cls(algorithm, public), ref.key_blob(name, fields), name, fields, public, kind


def instant(rng):
    """(aware datetime, epoch seconds): the same instant is handed to the library under UTC or under another fixed
    offset - the wire carries the instant, whatever zone the caller's datetime lives in."""
    seconds = rng.choice([0, 1, 2 ** 31 - 1, 2 ** 31, 2 ** 32 - 2, rng.randrange(2 ** 32 - 1)])
    zone = UTC
    if rng.random() < 0.5:
        zone = datetime.timezone(datetime.timedelta(minutes=rng.choice([60, 120, -300, 330, -480, 765, -30])))
    return datetime.datetime.fromtimestamp(seconds, zone), seconds


def options(rng, critical, valued=True):
    """(library option objects, reference encodings) for a v01 certificate section."""
    key, _, _, _, _, _, _ = _mods()
    lib, wire = [], []
    if critical and not valued:
        pass
    elif critical:
        if rng.random() < 0.5:
            command = rng.choice(['ls -l', '/bin/true', 'echo %d' % rng.randrange(1000)])
            lib.append(key.SshCertExtensionForceCommand(command))
            wire.append(ref.option('force-command', ref.string(command.encode('ascii'))))
        if rng.random() < 0.4:
            networks = rng.sample(['192.168.0.0/24', '10.0.0.1/32', '2001:db8::/32', '172.16.0.0/12'], rng.randrange(1, 3))
            import ipaddress  # pylint: disable=import-outside-toplevel
            lib.append(key.SshCertExtensionSourceAddress([ipaddress.ip_network(n) for n in networks]))
            wire.append(ref.option('source-address', ref.string(','.join(networks).encode('ascii'))))
    else:
        table = [('permit-X11-forwarding', key.SshCertExtensionPermitX11Forwarding),
                 ('permit-agent-forwarding', key.SshCertExtensionPermitAgentForwarding),
                 ('permit-port-forwarding', key.SshCertExtensionPermitPortForwarding),
                 ('permit-pty', key.SshCertExtensionPermitPTY), ('permit-user-rc', key.SshCertExtensionPermitUserRC),
                 ('no-presence-required', key.SshCertExtensionNoPrecenseRequired)]
        for name, cls in table:
            if rng.random() < 0.5:
                lib.append(cls())
                wire.append(ref.option(name, b''))
    if rng.random() < 0.3:
        name = 'unknown-option@verif-%d' % rng.randrange(100)
        data = rbytes(rng, pick_len(rng, 0, 20))
        lib.append(key.SshCertExtensionUnparsed(name, bytearray(data)))
        wire.append(ref.option(name, data))
    return lib, wire


def certificate(rng, valued=False, subject=None, critical_wire=None):
    """valued=True adds the options that carry a value (force-command, source-address); subject=(kind, host_key(..), version)
    certifies that very key again."""
    key, _, _, _, alg, _, _ = _mods()
    kind = subject[0] if subject else rng.choice(['rsa', 'dss', 'ecdsa', 'ed25519'])
    _, _, key_name, fields, public, _ = subject[1] if subject else host_key(rng, kind, all_curves=False)
    version = subject[2] if subject else 'v00' if kind in ('rsa', 'dss') and rng.random() < 0.3 else 'v01'
    cert_name = key_name + '-cert-%s@openssh.com' % version
    signer, signer_blob, signer_name, _, _, _ = host_key(rng)
    signature = rbytes(rng, pick_len(rng, 0, 100))
    signature_lib = key.SshCertSignature(alg.SshHostKeyAlgorithm.from_code(signer_name), bytearray(signature))
    signature_wire = ref.signature_blob(signer_name, signature)
    cert_type = rng.choice(list(key.SshCertType))
    key_id = rng.choice(['', 'key-id', 'host/%d' % rng.randrange(10 ** 6)])
    principals = [rng.choice(['host.example.com', 'root', 'user%d' % rng.randrange(100)]) for _ in range(pick_len(rng, 0, 4))]
    after_lib, after = instant(rng)
    if rng.random() < 0.3:
        before_lib, before = None, 2 ** 64 - 1
    else:
        before_lib, before = instant(rng)
    nonce = rbytes(rng, rng.choice([0, 16, 32]))
    reserved = rbytes(rng, rng.choice([0, 0, 4]))
    algorithm = alg.SshHostKeyAlgorithm.from_code(cert_name)
    principals_lib = [key.SshString(p) for p in principals]
    classes = {('rsa', 'v00'): key.SshHostCertificateV00RSA, ('dss', 'v00'): key.SshHostCertificateV00DSS,
               ('rsa', 'v01'): key.SshHostCertificateV01RSA, ('dss', 'v01'): key.SshHostCertificateV01DSS,
               ('ecdsa', 'v01'): key.SshHostCertificateV01ECDSA, ('ed25519', 'v01'): key.SshHostCertificateV01EDDSA}
    cls = classes[(kind, version)]
    if version == 'v01':
        serial = rng.choice([0, 1, 2 ** 64 - 1, rng.getrandbits(64)])
        critical_lib, reference_critical_wire = options(rng, True, valued)
        critical_wire = reference_critical_wire if critical_wire is None else critical_wire
        extensions_lib, extensions_wire = options(rng, False)
        lib = cls(host_key_algorithm=algorithm, public_key=public, nonce=bytearray(nonce), serial=serial,
                  certificate_type=cert_type, key_id=key_id, valid_principals=principals_lib, valid_after=after_lib,
                  valid_before=before_lib, critical_options=critical_lib, extensions=extensions_lib,
                  reserved=bytearray(reserved), signature_key=signer, signature=signature_lib)
        wire = ref.certificate_v01(cert_name, nonce, fields, serial, cert_type.value.code, key_id, principals, after, before,
                                   critical_wire, extensions_wire, reserved, signer_blob, signature_wire)
    else:
        constraints_lib, constraints_wire = options(rng, rng.random() < 0.5, valued)
        lib = cls(host_key_algorithm=algorithm, public_key=public, certificate_type=cert_type, key_id=key_id,
                  valid_principals=principals_lib, valid_after=after_lib, valid_before=before_lib,
                  constraints=constraints_lib, nonce=bytearray(nonce), reserved=bytearray(reserved), signature_key=signer,
                  signature=signature_lib)
        wire = ref.certificate_v00(cert_name, fields, cert_type.value.code, key_id, principals, after, before,
                                   constraints_wire, nonce, reserved, signer_blob, signature_wire)
    return Pair('certificate-%s-%s%s' % (kind, version, '+valued-options' if valued else ''), lib, wire,
                {'blob': wire, 'kind': 'certificate'}, key_suffix='+valued-options' if valued else '')


def host_key_pair(rng):
    lib, blob, _, _, _, kind = host_key(rng)
    return Pair('host-key-' + kind, lib, blob, {'blob': blob, 'kind': 'key'})


# ------------------------------------------------------------------------------------------ messages
def kexinit(rng):
    _, _, sub, _, alg, _, _ = _mods()
    from cryptoparser.common.classes import LanguageTag  # pylint: disable=import-outside-toplevel
    cookie = rbytes(rng, 16)
    spec = [alg.SshKexAlgorithm, alg.SshHostKeyAlgorithm, alg.SshEncryptionAlgorithm, alg.SshEncryptionAlgorithm,
            alg.SshMacAlgorithm, alg.SshMacAlgorithm, alg.SshCompressionAlgorithm, alg.SshCompressionAlgorithm]
    lists_lib, lists = [], []
    for enum_class in spec:
        names_lib, names = name_list(rng, enum_class)
        lists_lib.append(names_lib)
        lists.append(names)
    languages = []
    for _ in range(2):
        tags = [rng.choice(['en-US', 'de', 'hu-HU', 'i-klingon', 'es-419', 'de-1996', 'sl-rozaj-1994', 'zh-Hant-TW', 'x-a1'])
                for _ in range(rng.choice([0, 0, 0, 1, 2]))]
        languages.append(tags)
    follows = rng.random() < 0.5
    reserved = rng.choice([0, 0, 1, 2 ** 32 - 1])
    given = {'cookie': bytearray(cookie), 'reserved': reserved}
    if rng.random() < 0.35:
        # as a sender builds it: the cookie is left to the class (16 random octets, RFC 4253 7.1), reserved to its default 0
        given, reserved = {}, 0
    lib = sub.SshKeyExchangeInit(
        kex_algorithms=lists_lib[0], host_key_algorithms=lists_lib[1],
        encryption_algorithms_client_to_server=lists_lib[2], encryption_algorithms_server_to_client=lists_lib[3],
        mac_algorithms_client_to_server=lists_lib[4], mac_algorithms_server_to_client=lists_lib[5],
        compression_algorithms_client_to_server=lists_lib[6], compression_algorithms_server_to_client=lists_lib[7],
        languages_client_to_server=[LanguageTag(t.split('-')[0], t.split('-')[1:]) for t in languages[0]],
        languages_server_to_client=[LanguageTag(t.split('-')[0], t.split('-')[1:]) for t in languages[1]],
        first_kex_packet_follows=1 if follows else 0, **given)
    if not given:
        cookie = bytes(lib.cookie)
        if len(cookie) != 16:
            raise ValueError('the cookie the class chose has %d octets instead of 16' % len(cookie))
    wire = ref.kexinit(cookie, lists + languages, follows, reserved)
    extra = {'hassh': ref.hassh(lists[0], lists[2], lists[4], lists[6]),
             'hassh_server': ref.hassh(lists[0], lists[3], lists[5], lists[7])}
    return Pair('kexinit', lib, wire, extra)


def messages(rng):
    """One Pair per message class."""
    _, _, sub, _, _, _, _ = _mods()
    pairs = [kexinit(rng)]
    reason = rng.choice(list(sub.SshReasonCode))
    description = rng.choice(['', 'bye', u'árvíztűrő', 'Too many authentication failures', 'Bye Bye\n', ' leading blank', 'trailing blank ',
                              'two\r\nlines', '\t', ' '])        # free text (RFC 4253 11.1): blanks and line ends at its edges are part of it
    language = rng.choice(['', 'en', 'en-US'])
    pairs.append(Pair('disconnect', sub.SshDisconnectMessage(reason, description, language),
                      ref.disconnect(int(reason), description, language)))
    number = rng.choice([0, 1, 2 ** 32 - 1, rng.getrandbits(32)])
    pairs.append(Pair('unimplemented', sub.SshUnimplementedMessage(number), ref.unimplemented(number)))
    pairs.append(Pair('newkeys', sub.SshNewKeys(), ref.newkeys()))
    e_bytes = rbytes(rng, pick_len(rng, 0, 520))
    pairs.append(Pair('kexdh-init', sub.SshDHKeyExchangeInit(bytearray(e_bytes)), ref.kexdh_init(e_bytes, 30)))
    pairs.append(Pair('gex-init', sub.SshDHGroupExchangeInit(bytearray(e_bytes)), ref.kexdh_init(e_bytes, 32)))
    key_lib, blob, _, _, _, _ = host_key(rng)
    f_bytes, signature = rbytes(rng, pick_len(rng, 1, 520)), rbytes(rng, pick_len(rng, 0, 300))
    pairs.append(Pair('kexdh-reply', sub.SshDHKeyExchangeReply(key_lib, bytearray(f_bytes), bytearray(signature)),
                      ref.kexdh_reply(blob, f_bytes, signature, 31)))
    pairs.append(Pair('gex-reply', sub.SshDHGroupExchangeReply(key_lib, bytearray(f_bytes), bytearray(signature)),
                      ref.kexdh_reply(blob, f_bytes, signature, 33)))
    minimum, preferred, maximum = sorted(rng.choice([1024, 2048, 3072, 4096, 8192, 0, 2 ** 32 - 1]) for _ in range(3))
    pairs.append(Pair('gex-request', sub.SshDHGroupExchangeRequest(minimum, preferred, maximum),
                      ref.gex_request(minimum, preferred, maximum)))
    p_bytes, g_bytes = rbytes(rng, pick_len(rng, 1, 1030)), rbytes(rng, pick_len(rng, 1, 4))
    pairs.append(Pair('gex-group', sub.SshDHGroupExchangeGroup(bytearray(p_bytes), bytearray(g_bytes)),
                      ref.gex_group(p_bytes, g_bytes)))
    return pairs


RECORD_CLASS_FOR = {
    'kexinit': ('SshRecordInit', 'SshRecordKexDH', 'SshRecordKexDHGroup'),
    'disconnect': ('SshRecordInit', 'SshRecordKexDH', 'SshRecordKexDHGroup'),
    'unimplemented': ('SshRecordInit', 'SshRecordKexDH', 'SshRecordKexDHGroup'),
    'newkeys': ('SshRecordKexDH', 'SshRecordKexDHGroup'),
    'kexdh-init': ('SshRecordKexDH', ), 'kexdh-reply': ('SshRecordKexDH', ),
    'gex-init': ('SshRecordKexDHGroup', ), 'gex-reply': ('SshRecordKexDHGroup', ), 'gex-request': ('SshRecordKexDHGroup', ),
    'gex-group': ('SshRecordKexDHGroup', ),
}


def records(rng, message_pairs):
    """Binary packets around the messages: minimal zero padding (compose direction) and any valid padding (parse)."""
    _, record, _, _, _, _, _ = _mods()
    pairs = []
    for pair in message_pairs:
        for class_name in RECORD_CLASS_FOR[pair.label]:
            cls = getattr(record, class_name)
            minimal = ref.minimal_padding_length(len(pair.wire))
            pairs.append(Pair('packet-%s-%s' % (class_name, pair.label), cls(pair.obj),
                              ref.binary_packet(pair.wire, b'\x00' * minimal), {'payload': pair.wire}))
            extra_blocks = rng.choice([0, 1, 2, (255 - minimal) // 8])
            padding = rbytes(rng, minimal + 8 * extra_blocks)
            pairs.append(Pair('packet-anypad-%s-%s' % (class_name, pair.label), cls(pair.obj),
                              ref.binary_packet(pair.wire, padding), {'payload': pair.wire}, compose_must_match=False))
    return pairs


def banner(rng):
    _, _, sub, version, _, _, _ = _mods()
    major, minor = rng.choice([(2, 0), (1, 99), (1, 5), (2, 7), (1, 0)])
    kind = rng.randrange(6)
    if kind == 0:
        number = rng.choice(['8.1', '7.4p1', '9.6', None])
        software_lib = version.SshSoftwareVersionOpenSSH(number)
        software = 'OpenSSH' + ('_' + number if number is not None else '')
    elif kind == 1:
        number = rng.choice(['2020.81', '0.52', None])
        software_lib = version.SshSoftwareVersionDropbear(number)
        software = 'dropbear' + ('_' + number if number is not None else '')
    elif kind == 2:
        software_lib, software = version.SshSoftwareVersionCryptlib(), 'cryptlib'
    elif kind == 3:
        number = rng.choice(['6.6.0', None])
        software_lib = version.SshSoftwareVersionIPSSH(number)
        software = 'IPSSH' + ('-' + number if number is not None else '')
    else:
        # also names that differ from a modelled vendor only in letter case or separator: they are other software
        software = rng.choice(['libssh_0.9.6', 'Cisco-1.25', 'x', 'ROSSSH', 'mod_sftp/0.9.9', 'WeOnlyDo-2.1.3', 'Dropbear_2022.83',
                               'openssh_9.6', 'OPENSSH_9.6', 'MONACA', 'CRYPTLIB', 'ipssh-6.6.0', 'OpenSSH-8.1', 'dropbear-2020.81',
                               'OpenSSHx_8.1', 'OpenSS'])
        software_lib = version.SshSoftwareVersionUnparsed(software)
    comment = rng.choice([None, None, 'Ubuntu-4ubuntu0.3', 'comment with spaces', 'FreeBSD-20200214', '', 'two  blanks', ' leading blank',
                          'trailing blank ', 'tab\tinside', '  ', ''.join(chr(rng.randrange(0x20, 0x7f)) for _ in range(rng.randrange(1, 40)))])
    lib = sub.SshProtocolMessage(version.SshProtocolVersion(major, minor), software_lib, comment)
    return Pair('banner', lib, ref.banner(major, minor, software, comment))


_CERTIFICATES = []


def _certificates():
    """DER certificates of the committed corpus (corpus/certs.jsonl): real leaf / intermediate certificates."""
    if not _CERTIFICATES:
        import json  # pylint: disable=import-outside-toplevel
        import os  # pylint: disable=import-outside-toplevel
        path = os.path.join(os.path.dirname(os.path.dirname(os.path.dirname(os.path.abspath(__file__)))), 'corpus', 'certs.jsonl')
        with open(path) as handle:
            for line in handle:
                if line.strip():
                    _CERTIFICATES.append(bytes.fromhex(json.loads(line)['hex']))
    return _CERTIFICATES


def x509_chain(rng):
    """RFC 6187 section 2.1: string algorithm, uint32 count, the certificates (leaf first), uint32 count, the OCSP responses."""
    key, _, _, _, alg, _, _ = _mods()
    from cryptoparser.common.x509 import PublicKeyX509  # pylint: disable=import-outside-toplevel
    algorithms = [member for member in alg.SshHostKeyAlgorithm
                  if member.value.key_type == alg.SshHostKeyType.X509_CERTIFICATE_CHAIN]
    algorithm = rng.choice(algorithms)
    ders = _certificates()
    chain = [rng.choice(ders) for _ in range(rng.choice([1, 2, 2, 3, 4]))]
    responses = [rbytes(rng, pick_len(rng, 0, 300)) for _ in range(rng.choice([0, 0, 1, 2]))]
    lib = key.SshX509CertificateChain(algorithm, PublicKeyX509.from_der(chain[0]),
                                      [PublicKeyX509.from_der(der) for der in chain[1:]], [bytearray(response) for response in responses])
    name = algorithm.value.code.encode('ascii')
    wire = ref.string(name) + ref.u32(len(chain)) + b''.join(ref.string(der) for der in chain) + \
        ref.u32(len(responses)) + b''.join(ref.string(response) for response in responses)
    return Pair('x509-chain', lib, wire)


def certificate_renewed(rng):
    """The same subject key certified twice under the same certificate algorithm (a renewed certificate, or a host and a user
    certificate of one key): other serial, key id, validity, principals, signature."""
    kind = rng.choice(['rsa', 'dss', 'ecdsa', 'ed25519'])
    subject = (kind, host_key(rng, kind, all_curves=False), 'v01')
    return [certificate(rng, False, subject), certificate(rng, False, subject)]


def certificate_plain_options(rng):
    """For the fingerprint monitor only (the library object does not describe these options): a v01 certificate whose
    source-address / force-command options carry their value as one string, the encoding the repository's own test vectors use
    and the parser accepts, with address lists that are not in normal form (host bits set, mixed families, a single address)."""
    values = rng.sample(['192.168.1.5/24', '2001:db8::1/64', '10.0.0.0/8', '10.1.2.3', '192.168.0.0/16,10.0.0.1/8', '::1/128',
                         '172.16.5.4/12,2001:db8::/32'], rng.randrange(1, 3))
    wire = [ref.string(b'source-address') + ref.string(','.join(values).encode('ascii'))]
    if rng.random() < 0.5:
        wire.insert(0, ref.string(b'force-command') + ref.string(b'/bin/true'))
    kind = rng.choice(['rsa', 'dss', 'ecdsa', 'ed25519'])
    pair = certificate(rng, False, (kind, host_key(rng, kind, all_curves=False), 'v01'), critical_wire=wire)
    pair.label += '+plain-option-values'
    return pair


def certificate_valued(rng):
    return certificate(rng, True)


def messages_and_records(rng):
    message_pairs = messages(rng)
    return message_pairs + records(rng, message_pairs)


def kexinit_default_cookies(rng):
    """The cookie the class chooses by itself is drawn from the process RNG, so one construction says little: 64 of them, every
    one 16 octets (RFC 4253 7.1); the last one is compared with its reference encoding like any other KEXINIT."""
    _, _, sub, _, alg, _, _ = _mods()
    lists_lib, lists = [], []
    for enum_class in [alg.SshKexAlgorithm, alg.SshHostKeyAlgorithm, alg.SshEncryptionAlgorithm, alg.SshEncryptionAlgorithm,
                       alg.SshMacAlgorithm, alg.SshMacAlgorithm, alg.SshCompressionAlgorithm, alg.SshCompressionAlgorithm]:
        names_lib, names = name_list(rng, enum_class)
        lists_lib.append(names_lib)
        lists.append(names)
    lib = None
    for _ in range(64):
        lib = sub.SshKeyExchangeInit(
            kex_algorithms=lists_lib[0], host_key_algorithms=lists_lib[1],
            encryption_algorithms_client_to_server=lists_lib[2], encryption_algorithms_server_to_client=lists_lib[3],
            mac_algorithms_client_to_server=lists_lib[4], mac_algorithms_server_to_client=lists_lib[5],
            compression_algorithms_client_to_server=lists_lib[6], compression_algorithms_server_to_client=lists_lib[7])
        if len(lib.cookie) != 16:
            raise ValueError('the cookie the class chose has %d octets instead of 16' % len(lib.cookie))
    wire = ref.kexinit(bytes(lib.cookie), lists + [[], []], False, 0)
    return Pair('kexinit-default-cookie', lib, wire)


def generate(rng, count, failures=False):
    makers = [messages_and_records, banner, host_key_pair, host_key_pair, certificate, certificate, certificate_valued, x509_chain, certificate_renewed,
              kexinit_default_cookies]
    produced = 0
    while produced < count:
        for maker in makers:
            for pair in guarded(maker, rng, failures):
                yield pair
                produced += 1
