# -*- coding: utf-8 -*-
"""W-construct for SSL/TLS: one set of random choices produces BOTH the library object (through the public
constructors) and the reference encoding (vmon/ref/tls.py). cryptodatahub enums are used as tables of
numbers only (member -> code)."""
import datetime

from vmon.ref import tls as ref

UTC = datetime.timezone.utc


class Pair(object):  # pylint: disable=too-few-public-methods
    """One generated case: library object, the class whose parser must accept it, reference bytes."""

    def __init__(self, label, obj, wire, extra=None, compose_must_match=True, key_suffix=''):
        self.key_suffix = key_suffix    # appended to class-based finding keys (separates a known mechanism)
        self.label = label
        self.obj = obj
        self.cls = type(obj)
        self.wire = wire
        self.extra = extra or {}
        self.compose_must_match = compose_must_match


class ConstructionFailure(object):  # pylint: disable=too-few-public-methods
    """A maker raised while building the library object: a public constructor refused values the generator holds to be valid."""

    def __init__(self, label, error):
        self.label = label
        self.error = error


def guarded(maker, rng, failures):
    """maker(rng) as a list of Pairs; when it raises, one ConstructionFailure (or nothing when failures are not wanted)."""
    try:
        result = maker(rng)
    except Exception as e:  # pylint: disable=broad-except
        name = getattr(maker, '__name__', 'maker').strip('<>') or 'maker'
        return [ConstructionFailure(name, e)] if failures else []
    return result if isinstance(result, list) else [result]


def _mods():
    import cryptoparser.tls.extension as ext  # pylint: disable=import-outside-toplevel
    import cryptoparser.tls.grease as grease  # pylint: disable=import-outside-toplevel
    import cryptoparser.tls.record as record  # pylint: disable=import-outside-toplevel
    import cryptoparser.tls.subprotocol as sub  # pylint: disable=import-outside-toplevel
    import cryptoparser.tls.version as version  # pylint: disable=import-outside-toplevel
    import cryptodatahub.tls.algorithm as alg  # pylint: disable=import-outside-toplevel
    import cryptodatahub.tls.version as dver  # pylint: disable=import-outside-toplevel
    return ext, grease, record, sub, version, alg, dver


def rbytes(rng, length):
    return bytes(rng.randrange(256) for _ in range(length))


def pick_len(rng, low, high):
    """Boundary-biased length."""
    choices = [low, low + 1, high, high - 1, (low + high) // 2, rng.randint(low, high)]
    return max(low, min(high, rng.choice(choices)))


def edge_int(rng, bits):
    """Boundary-biased unsigned integer of the given width."""
    return rng.choice([0, 1, 2 ** bits - 1, 2 ** (bits - 1), 2 ** (bits - 1) - 1, rng.getrandbits(bits), rng.getrandbits(bits)])


ONE_BYTE_GREASE = [0x0b, 0x2a, 0x49, 0x68, 0x87, 0xa6, 0xc5, 0xe4]      # RFC 8701, one-byte code spaces


def known_or_unknown(rng, enum_class, invalid_class, bits=16, unknown_rate=0.25):
    """(library item, numeric code)."""
    members = list(enum_class)
    known = {m.value.code for m in members}
    if invalid_class is not None and rng.random() < unknown_rate:
        for _ in range(50):
            # unknown two-byte numbers also from the range where they collide with the numbers of other, narrower code spaces
            # (the one-byte GREASE values 0x0b, 0x2a, ...) and next to the GREASE pattern (0x0a1a is not GREASE)
            code = rng.choice(list(ref.GREASE) + [rng.randrange(2 ** bits) for _ in range(4)] + ONE_BYTE_GREASE +
                              [0x0a1a, 0x1a0a, 0x0a0b, rng.randrange(256)]) if bits == 16 else \
                rng.choice(ONE_BYTE_GREASE + [rng.randrange(2 ** bits) for _ in range(4)])
            if code not in known:
                return invalid_class(code), code
    member = rng.choice(members)
    return member, member.value.code


# ------------------------------------------------------------------------------------------ extensions
def extension_pairs(rng, side):  # pylint: disable=too-many-locals,too-many-statements,too-many-branches
    """One (library extension, reference encoding, type code, meta) per supported extension class of `side`."""
    ext, grease, _, _, version, alg, dver = _mods()
    two, one = grease.TlsInvalidTypeTwoByte, grease.TlsInvalidTypeOneByte
    etype = alg.TlsExtensionType
    result = []

    def add(obj, type_member, payload, meta=None):
        code = type_member.value.code if hasattr(type_member, 'value') else type_member
        result.append((obj, ref.extension(code, payload), code, meta or {}))

    def items(enum_class, invalid, bits, low, high):
        chosen = [known_or_unknown(rng, enum_class, invalid, bits) for _ in range(pick_len(rng, low, high))]
        return [c[0] for c in chosen], [c[1] for c in chosen]

    # empty-data extensions
    empties_client = [(ext.TlsExtensionExtendedMasterSecret, etype.EXTENDED_MASTER_SECRET),
                      (ext.TlsExtensionEncryptThenMAC, etype.ENCRYPT_THEN_MAC),
                      (ext.TlsExtensionChannelId, etype.CHANNEL_ID),
                      (ext.TlsExtensionShortRecordHeader, etype.SHORT_RECORD_HEADER),
                      (ext.TlsExtensionSignedCertificateTimestampClient, etype.SIGNED_CERTIFICATE_TIMESTAMP),
                      (ext.TlsExtensionNextProtocolNegotiationClient, etype.NEXT_PROTOCOL_NEGOTIATION)]
    empties_server = [(ext.TlsExtensionExtendedMasterSecret, etype.EXTENDED_MASTER_SECRET),
                      (ext.TlsExtensionEncryptThenMAC, etype.ENCRYPT_THEN_MAC),
                      (ext.TlsExtensionChannelId, etype.CHANNEL_ID),
                      (ext.TlsExtensionServerNameServer, etype.SERVER_NAME),
                      (ext.TlsExtensionCertificateStatusRequestServer, etype.STATUS_REQUEST)]
    for cls, member in (empties_client if side == 'client' else empties_server):
        add(cls(), member, b'')

    # both sides
    formats_lib, formats = items(alg.TlsECPointFormat, one, 8, 1, 6)
    add(ext.TlsExtensionECPointFormats(formats_lib), etype.EC_POINT_FORMATS, ref.ext_ec_point_formats(formats),
        {'point_formats': formats})
    reneg = rbytes(rng, pick_len(rng, 0, 255))
    add(ext.TlsExtensionRenegotiationInfo(ext.TlsRenegotiatedConnection(reneg)), etype.RENEGOTIATION_INFO,
        ref.ext_renegotiation_info(reneg))
    ticket = rbytes(rng, pick_len(rng, 0, 300))
    add(ext.TlsExtensionSessionTicket(bytearray(ticket)), etype.SESSION_TICKET, ticket)
    names_lib = [rng.choice(list(alg.TlsProtocolName)) for _ in range(pick_len(rng, 1, 5))]
    add(ext.TlsExtensionApplicationLayerProtocolNegotiation(names_lib), etype.APPLICATION_LAYER_PROTOCOL_NEGOTIATION,
        ref.ext_alpn([m.value.code.encode('utf-8') for m in names_lib]))
    limit = rng.choice([64, 512, 16384, 16385, 0, 65535, rng.randrange(65536)])
    add(ext.TlsExtensionRecordSizeLimit(limit), etype.RECORD_SIZE_LIMIT, ref.ext_record_size_limit(limit))

    if side == 'client':
        host, host_wire = rng.choice([
            ('example.com', b'example.com'), ('a.b', b'a.b'), ('www.sub-domain.example.org', b'www.sub-domain.example.org'),
            ('x' * 63 + '.com', b'x' * 63 + b'.com'), ('localhost', b'localhost'),
            (u'b\xfccher.example', b'xn--bcher-kva.example'),     # RFC 6066: A-labels on the wire
            ('h%d.test' % rng.randrange(10 ** 6), None)])
        add(ext.TlsExtensionServerNameClient(host), etype.SERVER_NAME,
            ref.ext_server_name(host_wire if host_wire is not None else host.encode('ascii')))
        groups_lib, groups = items(alg.TlsNamedCurve, two, 16, 1, 12)
        add(ext.TlsExtensionEllipticCurves(groups_lib), etype.SUPPORTED_GROUPS, ref.ext_supported_groups(groups),
            {'groups': groups})
        versions = []
        versions_lib = []
        for _ in range(pick_len(rng, 1, 8)):
            if rng.random() < 0.2:
                code = rng.choice(ref.GREASE)
                versions_lib.append(two(code))
            else:
                member = rng.choice(list(dver.TlsVersion))
                code = member.value.code
                versions_lib.append(version.TlsProtocolVersion(member))
            versions.append(code)
        add(ext.TlsExtensionSupportedVersionsClient(versions_lib), etype.SUPPORTED_VERSIONS,
            ref.ext_supported_versions_client(versions))
        for cls, member in ((ext.TlsExtensionSignatureAlgorithms, etype.SIGNATURE_ALGORITHMS),
                            (ext.TlsExtensionSignatureAlgorithmsCert, etype.SIGNATURE_ALGORITHMS_CERT),
                            (ext.TlsExtensionDelegatedCredentials, etype.DELEGATED_CREDENTIALS)):
            algs_lib, algs = items(alg.TlsSignatureAndHashAlgorithm, two, 16, 1, 10)
            add(cls(algs_lib), member, ref.ext_signature_algorithms(algs))
        for cls, member in ((ext.TlsExtensionKeyShareClient, etype.KEY_SHARE),
                            (ext.TlsExtensionKeyShareReservedClient, etype.KEY_SHARE_RESERVED)):
            entries_lib, entries = [], []
            for _ in range(pick_len(rng, 0, 4)):
                key = rbytes(rng, pick_len(rng, 1, 133))
                if rng.random() < 0.25:
                    code = rng.choice(ref.GREASE)
                    entries_lib.append(ext.TlsKeyShareEntryInvalidType(two(code), bytearray(key)))
                else:
                    member_group = rng.choice(list(alg.TlsNamedCurve))
                    code = member_group.value.code
                    entries_lib.append(ext.TlsKeyShareEntry(member_group, list(key)))
                entries.append((code, key))
            add(cls(entries_lib), member, ref.ext_key_share_client(entries))
        responder_ids = [rbytes(rng, pick_len(rng, 1, 40)) for _ in range(pick_len(rng, 0, 3))]
        request_extensions = rbytes(rng, pick_len(rng, 0, 30))
        add(ext.TlsExtensionCertificateStatusRequestClient(
            [ext.TlsCertificateStatusRequestResponderId(list(rid)) for rid in responder_ids], list(request_extensions)),
            etype.STATUS_REQUEST, ref.ext_status_request(responder_ids, request_extensions))
        settings_lib = [rng.choice(list(alg.TlsProtocolName)) for _ in range(pick_len(rng, 1, 3))]
        add(ext.TlsExtensionApplicationLayerProtocolSettings(settings_lib), etype.APPLICATION_LAYER_PROTOCOL_SETTINGS,
            ref.ext_alpn([m.value.code.encode('utf-8') for m in settings_lib]))
        major, minor = rng.randrange(256), rng.randrange(256)
        params_lib, params = items(alg.TlsTokenBindingParamater, one, 8, 1, 4)
        add(ext.TlsExtensionTokenBinding(ext.TlsTokenBindingProtocolVersion(major, minor), params_lib),
            etype.TOKEN_BINDING, ref.ext_token_binding(major, minor, params))
        modes_lib, modes = items(alg.TlsPskKeyExchangeMode, one, 8, 1, 4)
        add(ext.TlsExtensionPskKeyExchangeModes(modes_lib), etype.PSK_KEY_EXCHANGE_MODES,
            ref.ext_psk_key_exchange_modes(modes))
        comp_lib, comp = items(alg.TlsCertificateCompressionAlgorithm, two, 16, 1, 5)
        add(ext.TlsExtensionCompressCertificate(comp_lib), etype.COMPRESS_CERTIFICATE, ref.ext_compress_certificate(comp))
        padding = pick_len(rng, 0, 600)
        add(ext.TlsExtensionPadding(padding), etype.PADDING, ref.ext_padding(padding))
    else:
        # RFC 6962 3.3: signed certificate timestamps of known logs; millisecond instants over the whole 1970..2106 range
        import cryptoparser.common.x509 as x509  # pylint: disable=import-outside-toplevel
        logs = list(x509.CertificateTransparencyLog)
        scts_lib, scts = [], []
        for _ in range(rng.choice([1, 1, 2, 3])):
            log_id = bytes(rng.choice(logs).value.log_id.value)
            millis = rng.choice([0, 1, 2 ** 32 - 1, 2 ** 32, 2 ** 32 + 1, 1700000000123, 2 ** 41 - 1, (2 ** 32 - 1) * 1000 + 999,
                                 rng.randrange(2 ** 32 * 1000)])     # seconds fit 32 bits: 1970..2106
            moment = datetime.datetime.fromtimestamp(millis // 1000, datetime.timezone.utc) + datetime.timedelta(milliseconds=millis % 1000)
            signature_algorithm = rng.choice(list(alg.TlsSignatureAndHashAlgorithm))
            ct_extensions, signature = rbytes(rng, rng.choice([0, 0, 3])), rbytes(rng, pick_len(rng, 0, 80))
            scts_lib.append(x509.SignedCertificateTimestamp(x509.CtVersion.V1, log_id, moment, ct_extensions, signature_algorithm, signature))
            scts.append(ref.serialized_sct(0, log_id, millis, ct_extensions, signature_algorithm.value.code, signature))
        add(ext.TlsExtensionSignedCertificateTimestampServer(scts_lib), etype.SIGNED_CERTIFICATE_TIMESTAMP, ref.ext_sct_list(scts))
        member_version = rng.choice(list(dver.TlsVersion))
        add(ext.TlsExtensionSupportedVersionsServer(version.TlsProtocolVersion(member_version)), etype.SUPPORTED_VERSIONS,
            ref.ext_supported_versions_server(member_version.value.code))
        member_group = rng.choice(list(alg.TlsNamedCurve))
        key = rbytes(rng, pick_len(rng, 3, 133))    # a 2-byte body would be the hello-retry form
        add(ext.TlsExtensionKeyShareServer(ext.TlsKeyShareEntry(member_group, list(key))), etype.KEY_SHARE,
            ref.ext_key_share_server(member_group.value.code, key))
        member_group = rng.choice(list(alg.TlsNamedCurve))
        add(ext.TlsExtensionKeyShareClientHelloRetry(member_group), etype.KEY_SHARE,
            ref.ext_key_share_hello_retry(member_group.value.code))

    # unknown / GREASE / known-but-unparsed extension types, arbitrary data
    data = rbytes(rng, pick_len(rng, 0, 64))
    code = rng.choice(ref.GREASE)
    add(ext.TlsExtensionUnparsed(two(code), bytearray(data)), code, data, {'grease': True})
    known = {m.value.code for m in etype}
    code = rng.randrange(2 ** 16)
    while code in known or code in ref.GREASE:
        code = rng.randrange(2 ** 16)
    add(ext.TlsExtensionUnparsed(two(code), bytearray(data)), code, data)
    # a registered type the library has no structure for (RFC 8446 4.2.11 / 4.2.10 / 4.2.2): carried as it came, and where
    # it was put - the order of extensions is the sender's (and part of JA3)
    member = rng.choice([etype.PRE_SHARED_KEY, etype.EARLY_DATA, etype.COOKIE])
    add(ext.TlsExtensionUnparsed(member, bytearray(data)), member, data)
    return result


def npn_server_pair(rng):
    ext, _, _, _, _, alg, _ = _mods()
    names_lib = [rng.choice(list(alg.TlsNextProtocolName)) for _ in range(pick_len(rng, 1, 4))]
    payload = ref.ext_npn_server([m.value.code.encode('utf-8') for m in names_lib])
    return ext.TlsExtensionNextProtocolNegotiationServer(names_lib), payload, alg.TlsExtensionType.NEXT_PROTOCOL_NEGOTIATION.value.code


# ------------------------------------------------------------------------------------------ messages
def hello_random_pair(rng):
    _, _, _, sub, _, _, _ = _mods()
    seconds = rng.choice([0, 1, 2 ** 31 - 1, 2 ** 31, 2 ** 32 - 1, rng.randrange(2 ** 32), 1600000000])
    tail = rbytes(rng, 28)
    if rng.random() < 0.5:
        moment = datetime.datetime.utcfromtimestamp(seconds)      # the library's convention: naive means UTC
    else:
        # the same instant as an aware datetime in some other zone (hours, half and quarter hours, both signs)
        offset = datetime.timedelta(minutes=rng.choice([0, 60, -300, 330, 345, -570, 765, 840, -720]))
        moment = datetime.datetime.fromtimestamp(seconds, datetime.timezone(offset))
    lib = sub.TlsHandshakeHelloRandom(moment, sub.TlsHandshakeHelloRandomBytes(tail))
    return lib, ref.hello_random(seconds, tail)


def client_hello(rng):  # pylint: disable=too-many-locals
    _, grease, _, sub, version, alg, dver = _mods()
    two, one = grease.TlsInvalidTypeTwoByte, grease.TlsInvalidTypeOneByte
    member_version = rng.choice(list(dver.TlsVersion))
    random_lib, random_ref = hello_random_pair(rng)
    session_id = rbytes(rng, pick_len(rng, 0, 32))
    suites_lib, suites = [], []
    for _ in range(rng.choice([1, 1, 2, 3, 17, 60, rng.randrange(1, 200)])):
        item, code = known_or_unknown(rng, alg.TlsCipherSuite, two, 16, 0.2)
        while code in (0x00ff, 0x5600):     # the SCSV markers are modelled as flags, not as list items
            item, code = known_or_unknown(rng, alg.TlsCipherSuite, two, 16, 0.2)
        suites_lib.append(item)
        suites.append(code)
    compressions_lib, compressions = [], []
    for _ in range(pick_len(rng, 1, 3)):
        item, code = known_or_unknown(rng, alg.TlsCompressionMethod, one, 8, 0.15)
        compressions_lib.append(item)
        compressions.append(code)
    fallback, renegotiation = rng.random() < 0.5, rng.random() < 0.5
    pairs = extension_pairs(rng, 'client')
    rng.shuffle(pairs)
    chosen = pairs[:rng.choice([0, 0, 1, 3, 8, len(pairs)])]
    # an extension type appears once per hello
    seen, unique = set(), []
    for entry in chosen:
        if entry[2] not in seen:
            seen.add(entry[2])
            unique.append(entry)
    no_extensions_field = not unique and rng.random() < 0.7
    lib = sub.TlsHandshakeClientHello(
        cipher_suites=suites_lib, protocol_version=version.TlsProtocolVersion(member_version), random=random_lib,
        session_id=list(session_id), compression_methods=compressions_lib, extensions=[entry[0] for entry in unique],
        fallback_scsv=fallback, empty_renegotiation_info_scsv=renegotiation)
    scsv_tail = ([0x5600] if fallback else []) + ([0x00ff] if renegotiation else [])
    extensions_ref = None if not unique else [entry[1] for entry in unique]
    if not unique and not no_extensions_field:
        extensions_ref = None   # the library omits an empty extensions field; so does the canonical reference
    wire = ref.client_hello(member_version.value.code, random_ref, session_id, suites + scsv_tail, compressions, extensions_ref)
    groups = next((entry[3]['groups'] for entry in unique if 'groups' in entry[3]), None)
    formats = next((entry[3]['point_formats'] for entry in unique if 'point_formats' in entry[3]), None)
    extra = {
        'ja3': ref.ja3(member_version.value.code, suites + scsv_tail, [entry[2] for entry in unique], groups, formats),
        'version': member_version.value.code, 'suites': suites, 'scsv': scsv_tail, 'random': random_ref,
        'session_id': session_id, 'compressions': compressions, 'extensions': [(entry[2], entry[1]) for entry in unique],
        'groups': groups, 'point_formats': formats, 'fallback': fallback, 'renegotiation': renegotiation,
    }
    return Pair('client-hello', lib, wire, extra)


def client_hello_scsv_anywhere(rng):
    """Parse direction only: SCSV markers at arbitrary positions of a conformant hello are folded into the flags."""
    pair = client_hello(rng)
    extra = pair.extra
    suites = list(extra['suites'])
    for marker in extra['scsv']:
        suites.insert(rng.randrange(len(suites) + 1), marker)
    wire = ref.client_hello(extra['version'], extra['random'], extra['session_id'], suites, extra['compressions'],
                            [encoded for _, encoded in extra['extensions']] or None)
    extra = dict(extra, ja3=ref.ja3(extra['version'], suites, [code for code, _ in extra['extensions']],
                                    extra['groups'], extra['point_formats']))
    return Pair('client-hello-scsv-anywhere', pair.obj, wire, extra, compose_must_match=False)


def server_hello(rng, retry=False):
    _, _, _, sub, version, alg, dver = _mods()
    member_version = rng.choice(list(dver.TlsVersion))
    random_lib, random_ref = hello_random_pair(rng)
    session_id = rbytes(rng, pick_len(rng, 0, 32))
    suite = rng.choice(list(alg.TlsCipherSuite))
    compression = rng.choice(list(alg.TlsCompressionMethod))
    pairs = extension_pairs(rng, 'server')
    if retry:
        pairs = [p for p in pairs if type(p[0]).__name__ != 'TlsExtensionKeyShareServer']
    else:
        pairs = [p for p in pairs if type(p[0]).__name__ != 'TlsExtensionKeyShareClientHelloRetry']
    rng.shuffle(pairs)
    seen, unique = set(), []
    for entry in pairs[:rng.choice([0, 1, 2, 5, len(pairs)])]:
        if entry[2] not in seen:
            seen.add(entry[2])
            unique.append(entry)
    kwargs = dict(protocol_version=version.TlsProtocolVersion(member_version), session_id=list(session_id),
                  compression_method=compression, cipher_suite=suite, extensions=[entry[0] for entry in unique])
    if retry:
        lib = sub.TlsHandshakeHelloRetryRequest(random_bytes=random_lib, **kwargs)
    else:
        lib = sub.TlsHandshakeServerHello(random=random_lib, **kwargs)
    wire = ref.server_hello(member_version.value.code, random_ref, session_id, suite.value.code, compression.value.code,
                            [entry[1] for entry in unique] or None, msg_type=6 if retry else 2)
    return Pair('hello-retry-request' if retry else 'server-hello', lib, wire)


def certificate(rng):
    _, _, _, sub, _, _, _ = _mods()
    certs = [rbytes(rng, pick_len(rng, 1, 1200)) for _ in range(pick_len(rng, 1, 4))]
    lib = sub.TlsHandshakeCertificate(sub.TlsCertificates([sub.TlsCertificate(cert) for cert in certs]))
    return Pair('certificate', lib, ref.certificate(certs))


def server_key_exchange(rng):
    _, _, _, sub, _, _, _ = _mods()
    params = rbytes(rng, pick_len(rng, 0, 600))
    return Pair('server-key-exchange', sub.TlsHandshakeServerKeyExchange(params), ref.server_key_exchange(params))


def certificate_request(rng):
    _, grease, _, sub, _, alg, _ = _mods()
    types = [rng.choice(list(sub.TlsClientCertificateType)) for _ in range(pick_len(rng, 1, 9))]
    authorities = [rbytes(rng, pick_len(rng, 1, 120)) for _ in range(pick_len(rng, 0, 4))]
    algorithms_lib = algorithms = None
    if rng.random() < 0.6:
        chosen = [known_or_unknown(rng, alg.TlsSignatureAndHashAlgorithm, grease.TlsInvalidTypeTwoByte, 16, 0.1)
                  for _ in range(pick_len(rng, 1, 12))]
        algorithms_lib, algorithms = [c[0] for c in chosen], [c[1] for c in chosen]
    lib = sub.TlsHandshakeCertificateRequest(
        certificate_types=list(types), certificate_authorities=[sub.TlsDistinguishedName(list(name)) for name in authorities],
        supported_signature_algorithms=algorithms_lib)
    label = 'certificate-request%s%s' % ('+signature-algorithms' if algorithms is not None else '', '' if authorities else '+no-authorities')
    return Pair(label, lib, ref.certificate_request([int(t) for t in types], algorithms, authorities))


def certificate_status(rng):
    ext, _, _, sub, _, _, _ = _mods()
    response = rbytes(rng, pick_len(rng, 0, 900))
    lib = sub.TlsHandshakeCertificateStatus(ext.TlsCertificateStatusType.OCSP, bytearray(response))
    return Pair('certificate-status', lib, ref.certificate_status(1, response))


def server_hello_done(rng):
    _, _, _, sub, _, _, _ = _mods()
    del rng
    return Pair('server-hello-done', sub.TlsHandshakeServerHelloDone(), ref.server_hello_done())


def alert(rng):
    _, _, _, sub, _, _, _ = _mods()
    level = rng.choice(list(sub.TlsAlertLevel))
    description = rng.choice(list(sub.TlsAlertDescription))
    return Pair('alert', sub.TlsAlertMessage(level, description), ref.alert(int(level), int(description)))


def change_cipher_spec(rng):
    _, _, _, sub, _, _, _ = _mods()
    del rng
    return Pair('change-cipher-spec', sub.TlsChangeCipherSpecMessage(), ref.change_cipher_spec())


def tls_record(rng):
    _, _, record, sub, version, _, dver = _mods()
    content_type = rng.choice(list(sub.TlsContentType))
    member_version = rng.choice(list(dver.TlsVersion))
    fragment = rbytes(rng, rng.choice([0, 1, 2, 255, 256, rng.randrange(2000), 16384]))
    lib = record.TlsRecord(fragment, version.TlsProtocolVersion(member_version), content_type)
    return Pair('tls-record', lib, ref.record(int(content_type), member_version.value.code, fragment))


def ssl2_records(rng):
    _, _, record, sub, _, alg, _ = _mods()
    kinds = [rng.choice(list(alg.SslCipherKind)) for _ in range(pick_len(rng, 0, 8))]
    codes = [kind.value.code for kind in kinds]
    pairs = []
    error = rng.choice(list(sub.SslErrorType))
    pairs.append(Pair('ssl2-error', record.SslRecord(sub.SslErrorMessage(error)),
                      ref.ssl2_record(0, ref.ssl2_error(int(error)))))
    session_id = rbytes(rng, rng.choice([0, 16]))
    challenge = rbytes(rng, rng.choice([16, 17, 32]))
    pairs.append(Pair('ssl2-client-hello', record.SslRecord(sub.SslHandshakeClientHello(kinds, session_id, challenge)),
                      ref.ssl2_record(1, ref.ssl2_client_hello(0x0002, codes, session_id, challenge))))
    connection_id = rbytes(rng, rng.choice([0, 16]))
    # record bodies on both sides of 2^14 (the three-byte header's limit) and up to the two-byte header's 2^15 - 1
    room = 32767 - 1 - 11 - 3 * len(codes) - len(connection_id)
    certificate_length = rng.choice([pick_len(rng, 0, 700)] * 4 + [16384 - 40, 16384 - 12, 16384, 20000, room - 1, room])
    certificate_bytes = rbytes(rng, min(300, certificate_length)) + b'\x30' * max(0, certificate_length - 300)
    hit = rng.random() < 0.5
    pairs.append(Pair('ssl2-server-hello',
                      record.SslRecord(sub.SslHandshakeServerHello(certificate_bytes, kinds, connection_id, hit)),
                      ref.ssl2_record(4, ref.ssl2_server_hello(hit, 1, 0x0002, certificate_bytes, codes, connection_id))))
    # three-byte header with padding: parse direction only
    padding = b'\x00' * rng.randrange(1, 8)
    pairs.append(Pair('ssl2-error-padded', record.SslRecord(sub.SslErrorMessage(error)),
                      ref.ssl2_record_padded(0, ref.ssl2_error(int(error)), padding), compose_must_match=False))
    return pairs


def single_extensions(rng):
    pairs = []
    for side in ('client', 'server'):
        for obj, wire, _, _ in extension_pairs(rng, side):
            pairs.append(Pair('extension-%s-%s' % (side, type(obj).__name__), obj, wire))
    # parse direction only: A-labels whose Punycode part carries capital letters (Punycode keeps the case of basic code points,
    # RFC 3492 appendix A), and an upper-case ACE prefix; the library composes such names in another spelling (known finding)
    ext = _mods()[0]
    for host, host_wire in ((u'B\xfccher.example', b'xn--Bcher-kva.example'), (u'\xedSLAND.example', b'xn--SLAND-ysa.example')):
        pairs.append(Pair('extension-client-server-name+mixed-case-a-label', ext.TlsExtensionServerNameClient(host),
                          ref.extension(0, ref.ext_server_name(host_wire)), compose_must_match=False))
    obj, payload, code = npn_server_pair(rng)
    # the NPN server extension is encoded by the library without the extension_data length (see C06 finding)
    pairs.append(Pair('extension-server-TlsExtensionNextProtocolNegotiationServer', obj, ref.extension(code, payload)))
    return pairs


def generate(rng, count, failures=False):
    """Yield `count`-ish Pairs over every supported structure (and ConstructionFailures when asked for)."""
    makers = [client_hello, client_hello, client_hello_scsv_anywhere, server_hello, server_hello_retry,
              certificate, server_key_exchange, certificate_request, certificate_status, server_hello_done, alert,
              change_cipher_spec, tls_record, ssl2_records, single_extensions]
    produced = 0
    while produced < count:
        for maker in makers:
            for pair in guarded(maker, rng, failures):
                yield pair
                produced += 1


def server_hello_retry(rng):
    return server_hello(rng, retry=True)
