# -*- coding: utf-8 -*-
"""Non-canonical spellings for C05: respell valid text encodings of the seed corpus (dates in other
formats and zones, case, whitespace runs, redundant/trailing separators, reordering, quoting) and
binary encodings with unknown flag bits / SCSV positions. Only spellings the parser accepts are judged,
so no assumption about which respelling is insignificant is made here (that is C18's business).
"""
import re

from vmon import mutate, pipeline

_DATE = re.compile(rb'(Mon|Tue|Wed|Thu|Fri|Sat|Sun), (\d{2}) (Jan|Feb|Mar|Apr|May|Jun|Jul|Aug|Sep|Oct|Nov|Dec) (\d{4}) '
                   rb'(\d{2}):(\d{2}):(\d{2}) GMT')
_MONTHS = [b'Jan', b'Feb', b'Mar', b'Apr', b'May', b'Jun', b'Jul', b'Aug', b'Sep', b'Oct', b'Nov', b'Dec']
_CACHE = {}


def _texty_corpus():
    if 'texty' not in _CACHE:
        result = {}
        for name, seeds in pipeline.corpus_by_class().items():
            texts = [seed for seed in seeds if mutate.is_texty(seed)]
            if texts:
                result[name] = texts
        _CACHE['texty'] = result
    return _CACHE['texty']


def families(tier):
    blocks = 1 if tier == 'quick' else 12
    return [(name, blocks) for name in sorted(_texty_corpus())] + [
        ('cryptoparser.tls.subprotocol:TlsHandshakeClientHello', blocks),
        ('cryptoparser.tls.mysql:MySQLHandshakeV10', blocks),
        ('cryptoparser.dnsrec.record:DnsRecordDnskey', blocks),
        ('cryptoparser.dnsrec.record:DnsRecordTxt', 2 * blocks),
        ('cryptoparser.tls.rdp:RDPNegotiationRequest', blocks),
        ('cryptoparser.tls.rdp:RDPNegotiationResponse', blocks),
    ]


def _date_variants(match, rng):
    _, day, month, year, hour, minute, second = match.groups()
    month_number = _MONTHS.index(month) + 1
    zone = rng.choice([b'+0100', b'-0500', b'+0530', b'UTC', b'EST', b'PST', b'Z', b'+00:00', b'-08:00', b'CET', b'', b'GMT+1'])
    forms = [
        b'%s %s %s %s:%s:%s %s' % (day, month, year, hour, minute, second, zone),
        b'%s-%02d-%sT%s:%s:%s%s' % (year, month_number, day, hour, minute, second,
                                    rng.choice([b'+01:00', b'Z', b'-05:00', b'', b'+00:00'])),
        b'Sunday, %s-%s-%s %s:%s:%s GMT' % (day, month, year[2:], hour, minute, second),
        b'%s %s %s %s:%s:%s %s' % (month, day, year, hour, minute, second, zone),
        b'Sun, %s %s %s %s:%s:%s %s' % (day, month, year, hour, minute, second, zone),
        b'%s %s %s' % (day, month, year),
        b'%s/%02d/%s %s:%s' % (day, month_number, year, hour, minute),
        b'%s:%s:%s %s %s %s %s' % (hour, minute, second, day, month, year, zone),
    ]
    return rng.choice(forms)


def _respell_text(data, rng):
    kind = rng.randrange(12)
    if kind == 0 and _DATE.search(data):
        return 'date', _DATE.sub(lambda m: _date_variants(m, rng), data, count=1)
    if kind == 1:
        return 'upper', data.upper()
    if kind == 2:
        return 'lower', data.lower()
    if kind == 3:
        return 'random-case', bytes(b ^ 0x20 if (65 <= b <= 90 or 97 <= b <= 122) and rng.random() < 0.4 else b for b in data)
    separators = [i for i, b in enumerate(data) if b in b';,']
    if kind == 4 and separators:
        at = rng.choice(separators)
        return 'space-before-sep', data[:at] + b' ' * rng.randrange(1, 4) + data[at:]
    if kind == 5 and separators:
        at = rng.choice(separators)
        return 'space-after-sep', data[:at + 1] + rng.choice([b' ', b'  ', b'\t', b' \t ']) + data[at + 1:]
    if kind == 6 and separators:
        at = rng.choice(separators)
        return 'double-sep', data[:at] + bytes([data[at]]) * rng.randrange(2, 4) + data[at + 1:]
    if kind == 7:
        return 'trailing-sep', data + rng.choice([b';', b',', b'; ', b' ', b' ;', b';;'])
    if kind == 8 and separators:
        sep = bytes([data[rng.choice(separators)]])
        parts = data.split(sep)
        rng.shuffle(parts)
        return 'reorder', sep.join(parts)
    if kind == 9:
        equals = [i for i, b in enumerate(data) if b == 0x3d]
        if equals:
            at = rng.choice(equals)
            end = at + 1
            while end < len(data) and data[end] not in b';, ':
                end += 1
            value = data[at + 1:end]
            if value.startswith(b'"') and value.endswith(b'"') and len(value) >= 2:
                return 'unquote', data[:at + 1] + value[1:-1] + data[end:]
            return 'quote', data[:at + 1] + b'"' + value + b'"' + data[end:]
    if kind == 10:
        return 'leading-space', rng.choice([b' ', b'  ', b'\t']) + data
    if kind == 11 and separators:
        at = rng.choice(separators)
        return 'unknown-directive', data[:at + 1] + b' x-unknown=1' + bytes([data[at]]) + data[at + 1:]
    return 'space-storm', data.replace(b' ', b'  ', rng.randrange(1, 4))


def _txt_strings(rng, count):
    """DNS TXT RDATA as 1..5 character-strings whose total length sits on and around the 255-byte chunk boundaries."""
    alphabet = b'abcdefghijklmnopqrstuvwxyz0123456789=;. '
    for _ in range(count):
        total = rng.choice([0, 1, 254, 255, 256, 257, 509, 510, 511, 512, 765, 766, rng.randrange(1, 900)])
        text = bytes(rng.choice(alphabet) for _ in range(total))
        cuts = sorted(rng.randrange(total + 1) for _ in range(rng.randrange(0, 5)))
        chunks, start = [], 0
        for cut in cuts + [total]:
            piece = text[start:cut]
            while len(piece) > 255:
                chunks.append(piece[:255])
                piece = piece[255:]
            chunks.append(piece)
            start = cut
        yield 'txt-strings', b''.join(bytes([len(chunk)]) + chunk for chunk in chunks)


def _binary(name, rng, count):
    if name.endswith(':DnsRecordTxt'):
        for item in _txt_strings(rng, count):
            yield item
        return
    seeds = pipeline.corpus_by_class().get(name, [])
    if not seeds:
        return
    for _ in range(count):
        data = bytearray(rng.choice(seeds))
        if name.endswith('TlsHandshakeClientHello') and len(data) > 45:
            # rewrite the cipher-suite list: SCSV markers at random positions, duplicates, GREASE
            session_len = data[38]
            offset = 39 + session_len
            suites_len = int.from_bytes(data[offset:offset + 2], 'big')
            suites = [bytes(data[offset + 2 + i:offset + 4 + i]) for i in range(0, suites_len, 2)]
            for marker in (b'\x00\xff', b'\x56\x00', b'\x0a\x0a', b'\x00\xff'):
                if rng.random() < 0.5:
                    suites.insert(rng.randrange(len(suites) + 1), marker)
            new = b''.join(suites)
            body = bytes(data[4:offset]) + len(new).to_bytes(2, 'big') + new + bytes(data[offset + 2 + suites_len:])
            yield 'scsv-positions', bytes(data[:1]) + len(body).to_bytes(3, 'big') + body
            continue
        # set unknown/extra flag bits somewhere in the first 40 bytes
        position = rng.randrange(min(len(data), 40))
        data[position] |= 1 << rng.randrange(8)
        yield 'flag-bits', bytes(data)


def generate(name, rng, count):
    texts = _texty_corpus().get(name)
    if not texts or (name.endswith(':DnsRecordTxt') and rng.random() < 0.8):
        for item in _binary(name, rng, count):
            yield item
        return
    for _ in range(count):
        data = rng.choice(texts)
        label, variant = _respell_text(data, rng)
        if rng.random() < 0.3:
            label2, variant = _respell_text(variant, rng)
            label += '+' + label2
        yield label, variant
