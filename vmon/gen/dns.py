# -*- coding: utf-8 -*-
"""W-construct for DNS RDATA: library objects and reference encodings (vmon/ref/dns.py) from the same choices."""
import datetime

from vmon.gen.tls import Pair, guarded, pick_len, rbytes
from vmon.ref import dns as ref

UTC = datetime.timezone.utc


def coordinate(rng, bits):
    """Fixed-width field element: mostly random, sometimes with zero bytes at either end (fixed-width encoders drop them)."""
    value = rng.getrandbits(bits)
    shape = rng.randrange(10)
    if shape == 0:
        return value >> 8 * rng.randrange(1, 3)         # leading zero bytes
    if shape == 1:
        return value & ~((1 << 8 * rng.randrange(1, 3)) - 1)    # trailing zero bytes
    if shape == 2:
        return rng.choice([1, 2 ** bits - 1, 2 ** (bits - 1)])
    return value


def ec_key(rng, ckey, group, bits):
    """(key object, x, y); coordinate pairs the third-party key class cannot hold (asn1crypto derives the point width from
    log2 of the coordinates: both tiny, or an exact power of two) are redrawn."""
    while True:
        x, y = coordinate(rng, bits), coordinate(rng, bits)  # pylint: disable=invalid-name
        try:
            return ckey.PublicKey.from_params(ckey.PublicKeyParamsEcdsa(named_group=group, point_x=x, point_y=y)), x, y
        except (ValueError, OverflowError):
            continue


def _mods():
    import cryptoparser.dnsrec.record as record  # pylint: disable=import-outside-toplevel
    import cryptodatahub.dnsrec.algorithm as alg  # pylint: disable=import-outside-toplevel
    import cryptodatahub.common.key as ckey  # pylint: disable=import-outside-toplevel
    import cryptodatahub.common.algorithm as calg  # pylint: disable=import-outside-toplevel
    return record, alg, ckey, calg


def bits_int(rng, bits):
    return rng.getrandbits(bits) | (1 << (bits - 1))


def labels(rng):
    if rng.random() < 0.08:
        # the longest names RFC 1035 2.3.4 allows: 255 octets on the wire including the root label, and one octet less
        last = rng.choice([61, 60])
        return ['a' * 63, 'b' * 63, 'c' * 63, 'd' * last]
    count = rng.choice([0, 1, 2, 3, 5])
    result = []
    for _ in range(count):
        result.append(rng.choice(['example', 'com', 'a', 'mail', 'sub-domain', 'x' * 63, 'n%d' % rng.randrange(1000), 'org', 'MAIL', 'Example', 'xN', 'first.last', 'a.b.c', '_dmarc', '*']))
    return result


def dnskey(rng):  # pylint: disable=too-many-locals,too-many-branches,too-many-statements
    record, alg, ckey, calg = _mods()
    flag_members = [m for m in record.DnsSecFlag if rng.random() < 0.5]
    flags = 0
    for member in flag_members:
        flags |= int(member)
    kind = rng.choice(['rsa', 'rsa', 'rsa', 'rsamd5', 'dsa', 'p256', 'p384', 'gost', 'ed25519', 'ed448'])
    meta = {'kind': kind}
    if kind in ('rsa', 'rsamd5'):
        algorithm = alg.DnsSecAlgorithm.RSAMD5 if kind == 'rsamd5' else rng.choice(
            [alg.DnsSecAlgorithm.RSASHA1, alg.DnsSecAlgorithm.RSASHA256, alg.DnsSecAlgorithm.RSASHA512,
             getattr(alg.DnsSecAlgorithm, 'RSASHA1-NSEC3-SHA1', alg.DnsSecAlgorithm.RSASHA1)])
        exponent_bits = rng.choice([2, 17, 17, 17, 8, 9, 32, 33, 2040, 2041, 2048, rng.randrange(2, 2400)])
        exponent = bits_int(rng, exponent_bits) | 1
        modulus_bits = rng.choice([512, 1023, 1024, 1025, 2047, 2048, 2049, 4096, rng.randrange(64, 2200)])
        modulus = bits_int(rng, modulus_bits) | 1
        key = ckey.PublicKey.from_params(ckey.PublicKeyParamsRsa(modulus=modulus, public_exponent=exponent))
        public = ref.key_rsa(exponent, modulus)
        meta.update(modulus=modulus, modulus_bits=modulus_bits, exponent_octets=(exponent_bits + 7) // 8)
    elif kind == 'dsa':
        algorithm = rng.choice([alg.DnsSecAlgorithm.DSA, getattr(alg.DnsSecAlgorithm, 'DSA-NSEC3-SHA1', alg.DnsSecAlgorithm.DSA)])
        t = rng.choice([0, 1, 4, 8])  # pylint: disable=invalid-name
        size = 64 + 8 * t
        p = bits_int(rng, size * 8)  # pylint: disable=invalid-name
        q = bits_int(rng, 160)  # pylint: disable=invalid-name
        g, y = rng.getrandbits(size * 8 - 3), rng.getrandbits(size * 8 - 9)  # pylint: disable=invalid-name
        key = ckey.PublicKey.from_params(ckey.PublicKeyParamsDsa(prime=p, generator=g, order=q, public_key_value=y))
        public = ref.key_dsa(t, q, p, g, y)
    elif kind in ('p256', 'p384'):
        algorithm = alg.DnsSecAlgorithm.ECDSAP256SHA256 if kind == 'p256' else alg.DnsSecAlgorithm.ECDSAP384SHA384
        size = 32 if kind == 'p256' else 48
        group = calg.NamedGroup.PRIME256V1 if kind == 'p256' else calg.NamedGroup.SECP384R1
        key, x, y = ec_key(rng, ckey, group, size * 8)  # pylint: disable=invalid-name
        public = ref.key_ecdsa(x, y, size)
    elif kind == 'gost':
        algorithm = alg.DnsSecAlgorithm.ECCGOST
        key, x, y = ec_key(rng, ckey, calg.NamedGroup.GC256B, 256)  # pylint: disable=invalid-name
        public = ref.key_gost(x, y)
    elif kind == 'ed25519':
        algorithm = alg.DnsSecAlgorithm.ED25519
        public = rbytes(rng, 32)
        if rng.random() < 0.3:
            # steer the RFC 4034 Appendix B accumulator so that its low 16 bits sit just below 2^16: adding the carry then
            # overflows them, which is where an end-around-carry (Internet checksum) fold differs from the specified one
            body = ref.dnskey(flags, 3, algorithm.value.code, public[:30] + b'\x00\x00')
            accumulator = sum((byte << 8) if index % 2 == 0 else byte for index, byte in enumerate(body))
            wanted = 0x10000 - rng.randrange(1, 1 + max(1, accumulator >> 16))
            public = public[:30] + ((wanted - accumulator) % 0x10000).to_bytes(2, 'big')
        key = ckey.PublicKey.from_params(ckey.PublicKeyParamsEddsa(curve_type=calg.NamedGroup.CURVE25519, key_data=public))
    else:
        algorithm = alg.DnsSecAlgorithm.ED448
        public = rbytes(rng, 57)
        key = ckey.PublicKey.from_params(ckey.PublicKeyParamsEddsa(curve_type=calg.NamedGroup.CURVE448, key_data=public))
    wire = ref.dnskey(flags, 3, algorithm.value.code, public)
    lib = record.DnsRecordDnskey(set(flag_members), algorithm, key, record.DnsSecProtocol.V3)
    meta['key_tag'] = ref.key_tag(wire, algorithm.value.code, meta.get('modulus'))
    meta['rdata_odd'] = len(wire) % 2 == 1
    return Pair('dnskey-' + kind, lib, wire, meta, key_suffix='+' + kind)


def ds(rng):  # pylint: disable=invalid-name
    record, alg, _, _ = _mods()
    algorithm = rng.choice([m for m in alg.DnsSecAlgorithm])
    digest_type = rng.choice(list(alg.DnsSecDigestType))
    digest = rbytes(rng, rng.choice([20, 32, 48, 0, 1, 64]))
    tag = rng.choice([0, 1, 65535, rng.randrange(65536)])
    lib = record.DnsRecordDs(tag, algorithm, digest_type, digest)
    return Pair('ds', lib, ref.ds(tag, algorithm.value.code, digest_type.value.code, digest))


def rrsig(rng):
    record, alg, _, _ = _mods()
    if rng.random() < 0.25:
        code = rng.randrange(0xff00, 0xffff)
        covered_lib, covered = record.DnsRrTypePrivate(code), code
    else:
        member = rng.choice(list(alg.DnsRrType))
        covered_lib, covered = member, member.value.code
    algorithm = rng.choice(list(alg.DnsSecAlgorithm))
    label_count = rng.randrange(0, 128) if rng.random() < 0.8 else 255
    ttl = rng.choice([0, 1, 3600, 2 ** 31, 2 ** 32 - 1, rng.getrandbits(32)])
    times = []
    for _ in range(2):
        seconds = rng.choice([0, 1, 2 ** 31 - 1, 2 ** 31, 2 ** 32 - 2, rng.randrange(2 ** 32 - 1), 1700000000])
        times.append(seconds)
    tag = rng.choice([0, 1, 255, 256, 65535, rng.randrange(65536)])
    signer = labels(rng)
    signature = rbytes(rng, pick_len(rng, 0, 300))
    zones = [UTC, UTC, datetime.timezone(datetime.timedelta(hours=2)), datetime.timezone(datetime.timedelta(hours=-5)),
             datetime.timezone(datetime.timedelta(minutes=330))]
    lib = record.DnsRecordRrsig(
        covered_lib, algorithm, label_count, ttl, datetime.datetime.fromtimestamp(times[0], rng.choice(zones)),
        datetime.datetime.fromtimestamp(times[1], rng.choice(zones)), tag, record.DnsNameUncompressed(list(signer)) if any('.' in label for label in signer) or rng.random() < 0.5 else '.'.join(signer),
        signature)
    wire = ref.rrsig(covered, algorithm.value.code, label_count, ttl, times[0], times[1], tag,
                     [label.encode('ascii') for label in signer], signature)
    return Pair('rrsig', lib, wire)


def rrsig_max_time(rng):
    """Parse direction: 0xffffffff is an ordinary instant in an RRSIG (serial number arithmetic, RFC 4034 3.1.5)."""
    record, alg, _, _ = _mods()
    algorithm = rng.choice(list(alg.DnsSecAlgorithm))
    member = rng.choice(list(alg.DnsRrType))
    signer = labels(rng)
    signature = rbytes(rng, 8)
    lib = record.DnsRecordRrsig(
        member, algorithm, 2, 3600, datetime.datetime.fromtimestamp(2 ** 32 - 1, UTC), datetime.datetime.fromtimestamp(5, UTC),
        7, record.DnsNameUncompressed(list(signer)), signature)
    wire = ref.rrsig(member.value.code, algorithm.value.code, 2, 3600, 2 ** 32 - 1, 5, 7,
                     [label.encode('ascii') for label in signer], signature)
    return Pair('rrsig-max-time', lib, wire, key_suffix='+max-time')


def mx(rng):  # pylint: disable=invalid-name
    record, _, _, _ = _mods()
    preference = rng.choice([0, 1, 10, 65535, rng.randrange(65536)])
    exchange = labels(rng)
    # the name as a label list or, as callers usually have it, as dotted text (letter case is preserved on the wire)
    dotted = any('.' in label for label in exchange)      # a label holding a '.' octet cannot be written as dotted text
    given = record.DnsNameUncompressed(list(exchange)) if dotted or rng.random() < 0.5 else '.'.join(exchange)
    if isinstance(given, str) and rng.random() < 0.4:
        given += '.'        # the fully qualified spelling (RFC 1035 5.1): the same name, the same octets
    lib = record.DnsRecordMx(preference, given)
    return Pair('mx', lib, ref.mx(preference, [label.encode('ascii') for label in exchange]))


def idna_name(rng):
    record, _, _, _ = _mods()
    del rng
    lib = record.DnsNameUncompressed([u'b\xfccher', 'example'])
    return Pair('name-idna', lib, ref.name([b'xn--bcher-kva', b'example']))


def dns_name(rng):
    record, _, _, _ = _mods()
    chosen = labels(rng)
    return Pair('name', record.DnsNameUncompressed(list(chosen)), ref.name([label.encode('ascii') for label in chosen]))


def txt(rng):
    record, _, _, _ = _mods()
    length = rng.choice([0, 1, 10, 100, 254, 255])
    text = ''.join(rng.choice('abcdefghijklmnopqrstuvwxyz0123456789 =;:.-_') for _ in range(length))
    if not text:
        text = 'v'
    return Pair('txt', record.DnsRecordTxt(text), ref.txt([text.encode('ascii')]))


def txt_multi(rng):
    """Several <character-string>s / more than 255 bytes: one logical value (RFC 7208 3.3, RFC 6376 3.6.2.2)."""
    record, _, _, _ = _mods()
    chunks = []
    for _ in range(rng.choice([2, 3, 5])):
        length = rng.choice([1, 20, 255, 255, rng.randrange(1, 256)])
        chunks.append(''.join(rng.choice('abcdefghijklmnopqrstuvwxyz0123456789=;. ') for _ in range(length)))
    text = ''.join(chunks)
    pair = Pair('txt-multi', record.DnsRecordTxt(text), ref.txt([chunk.encode('ascii') for chunk in chunks]),
                compose_must_match=False, key_suffix='+multi')
    return pair


def txt_long(rng):
    """A value of more than 255 bytes must be composed as several character-strings (any split is conformant)."""
    record, _, _, _ = _mods()
    length = rng.choice([256, 300, 510, 511, 1000])
    text = ''.join(rng.choice('abcdefghijklmnopqrstuvwxyz0123456789=;. ') for _ in range(length))
    chunks = [text[i:i + 255] for i in range(0, len(text), 255)]
    return Pair('txt-long', record.DnsRecordTxt(text), ref.txt([chunk.encode('ascii') for chunk in chunks]),
                {'any_split': text.encode('ascii')}, compose_must_match=False, key_suffix='+long')


def generate(rng, count, failures=False):
    makers = [dnskey, dnskey, dnskey, ds, rrsig, rrsig_max_time, mx, dns_name, idna_name, txt, txt_multi, txt_long]
    produced = 0
    while produced < count:
        for maker in makers:
            for pair in guarded(maker, rng, failures):
                yield pair
                produced += 1
