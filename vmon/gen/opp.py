# -*- coding: utf-8 -*-
"""W-construct for the opportunistic-TLS application messages (MySQL, RDP, OpenVPN, PostgreSQL, LDAP)."""
from vmon.gen.tls import Pair, edge_int, guarded, pick_len, rbytes
from vmon.ref import opp as ref


def _mods():
    import cryptoparser.tls.ldap as ldap  # pylint: disable=import-outside-toplevel
    import cryptoparser.tls.mysql as mysql  # pylint: disable=import-outside-toplevel
    import cryptoparser.tls.openvpn as openvpn  # pylint: disable=import-outside-toplevel
    import cryptoparser.tls.postgresql as postgresql  # pylint: disable=import-outside-toplevel
    import cryptoparser.tls.rdp as rdp  # pylint: disable=import-outside-toplevel
    return ldap, mysql, openvpn, postgresql, rdp


def subset(rng, members, always=(), never=()):
    chosen = set(m for m in members if rng.random() < 0.5 and m not in never)
    chosen.update(always)
    return chosen


def mask(members):
    value = 0
    for member in members:
        value |= int(member)
    return value


# ------------------------------------------------------------------------------------------ MySQL
def mysql_handshake(rng, short_auth=False):
    _, mysql, _, _, _ = _mods()
    cap = mysql.MySQLCapability
    plugin_auth = rng.random() < 0.6
    if plugin_auth:
        capabilities = subset(rng, list(cap), always=(cap.CLIENT_PLUGIN_AUTH, ))
    else:
        capabilities = subset(rng, list(cap), never=(cap.CLIENT_PLUGIN_AUTH, cap.CLIENT_SECURE_CONNECTION))
    status = subset(rng, list(mysql.MySQLStatusFlag))
    version = rng.choice(list(mysql.MySQLVersion))
    server_version = rng.choice(['5.7.33', '8.0.28-0ubuntu0.20.04.3', '10.5.12-MariaDB', '5.5.5-10.3.34-MariaDB-0+deb10u1', 'x'])
    thread_id = rng.choice([0, 1, 2 ** 32 - 1, rng.getrandbits(32)])
    auth_1 = rbytes(rng, 8)
    character_set = rng.choice(list(mysql.MySQLCharacterSet))
    auth_2 = name = name_lib = None
    auth_len = 0
    if plugin_auth:
        if short_auth:
            auth_len = rng.choice([8, 9, 12, 20])
        else:
            auth_len = rng.choice([21, 21, 21, 22, 32, 255, rng.randrange(21, 256)])
        # Protocol::HandshakeV10: $len = MAX(13, length of auth-plugin-data - 8)
        auth_2 = rbytes(rng, max(13, auth_len - 8))
        if rng.random() < 0.5:
            auth_2 = auth_2[:-1] + b'\x00'     # as real servers send it: the scramble is NUL-terminated
        if rng.random() < 0.1:
            auth_2 = auth_2[:-3] + b'\x00\x00\x00'
        name_lib = rng.choice(['mysql_native_password', 'caching_sha2_password', 'sha256_password', 'p'])
        name = name_lib.encode('ascii')
    lib = mysql.MySQLHandshakeV10(
        protocol_version=version, server_version=server_version, connection_id=thread_id, auth_plugin_data=auth_1,
        capabilities=capabilities, character_set=character_set, states=status,
        auth_plugin_data_2=auth_2, auth_plugin_name=name_lib)
    wire = ref.mysql_handshake_v10(int(version), server_version.encode('ascii'), thread_id, auth_1, mask(capabilities),
                                   character_set.value.code, mask(status), auth_len, auth_2, name)
    return Pair('mysql-handshake-v10' + ('+short-auth-data' if short_auth else ''), lib, wire,
                key_suffix='+short-auth-data' if short_auth else '')


def mysql_ssl_request(rng):
    _, mysql, _, _, _ = _mods()
    cap = mysql.MySQLCapability
    if rng.random() < 0.75:
        capabilities = subset(rng, list(cap), always=(cap.CLIENT_PROTOCOL_41, cap.CLIENT_SSL))
        max_packet = rng.choice([0, 1, 2 ** 24, 2 ** 32 - 1, 0xffffff, rng.getrandbits(32)])
        if rng.random() < 0.3:
            # values that fit the older layout too: the request stays constructible when CLIENT_PROTOCOL_41 is taken out
            capabilities = subset(rng, [m for m in cap if int(m) < 2 ** 16], always=(cap.CLIENT_PROTOCOL_41, cap.CLIENT_SSL))
            max_packet = rng.choice([0, 1, 2 ** 24 - 1, rng.getrandbits(24)])
        character_set = rng.choice(list(mysql.MySQLCharacterSet))
        lib = mysql.MySQLHandshakeSslRequest(capabilities, max_packet, character_set)
        wire = ref.mysql_ssl_request_41(mask(capabilities), max_packet, character_set.value.code)
        return Pair('mysql-ssl-request-41', lib, wire)
    capabilities = subset(rng, [m for m in cap if int(m) < 2 ** 16], always=(cap.CLIENT_SSL, ), never=(cap.CLIENT_PROTOCOL_41, ))
    max_packet = rng.choice([0, 1, 2 ** 24 - 1, rng.getrandbits(24)])
    lib = mysql.MySQLHandshakeSslRequest(capabilities, max_packet)
    return Pair('mysql-ssl-request-320', lib, ref.mysql_ssl_request_320(mask(capabilities), max_packet))


def mysql_record(rng):
    _, mysql, _, _, _ = _mods()
    payload = rbytes(rng, rng.choice([0, 1, 255, 256, 65535, 65536, rng.randrange(3000)]))
    number = edge_int(rng, 8)
    return Pair('mysql-packet', mysql.MySQLRecord(number, payload), ref.mysql_packet(number, payload))


# ------------------------------------------------------------------------------------------ RDP
def tpkt(rng):
    _, _, _, _, rdp = _mods()
    payload = rbytes(rng, rng.choice([0, 1, 7, 19, 255, 65531, rng.randrange(2000)]))
    return Pair('tpkt', rdp.TPKT(3, payload), ref.tpkt(payload))


def x224(rng, symmetric_refs):
    """symmetric_refs: DST-REF == SRC-REF (the field order cannot show); otherwise different references."""
    _, _, _, _, rdp = _mods()
    confirm = rng.random() < 0.5
    dst_ref = rng.choice([0, 1, 0x1234, 0xffff, rng.getrandbits(16)])
    src_ref = dst_ref if symmetric_refs else (dst_ref + 1 + rng.randrange(0xfffe)) % 0x10000
    user_data = rbytes(rng, pick_len(rng, 0, 40))
    cls = rdp.COTPConnectionConfirm if confirm else rdp.COTPConnectionRequest
    lib = cls(src_ref=src_ref, user_data=bytearray(user_data), dst_ref=dst_ref)
    wire = ref.x224_connection(0xd if confirm else 0xe, dst_ref, src_ref, 0, user_data)
    label = 'x224-%s%s' % ('confirm' if confirm else 'request', '' if symmetric_refs else '+distinct-references')
    return Pair(label, lib, wire, {'wire_type': 'confirm' if confirm else 'request'},
                key_suffix='' if symmetric_refs else '+distinct-references')


def rdp_negotiation(rng):
    _, _, _, _, rdp = _mods()
    response = rng.random() < 0.5
    protocols = subset(rng, [m for m in rdp.RDPProtocol if int(m)])
    if response:
        flags = subset(rng, list(rdp.RDPNegotiationResponseFlags))
        lib = rdp.RDPNegotiationResponse(flags, protocols)
    else:
        flags = subset(rng, list(rdp.RDPNegotiationRequestFlags))
        lib = rdp.RDPNegotiationRequest(flags, protocols)
    wire = ref.rdp_negotiation(2 if response else 1, mask(flags), mask(protocols))
    return Pair('rdp-neg-%s' % ('rsp' if response else 'req'), lib, wire, {'wire_type': 'response' if response else 'request'})


# ------------------------------------------------------------------------------------------ OpenVPN
def openvpn(rng):
    _, _, ovpn, _, _ = _mods()
    session_id = rng.choice([0, 1, 2 ** 64 - 1, rng.getrandbits(64)])
    acks = [edge_int(rng, 32) for _ in range(rng.choice([0, 0, 1, 2, 8, 255]))]
    remote = edge_int(rng, 64) if acks else None
    packet_id = rng.choice([0, 1, 2 ** 32 - 1, rng.getrandbits(32)])
    kind = rng.randrange(4)
    if kind == 0:
        payload = rbytes(rng, pick_len(rng, 0, 400))
        lib = ovpn.OpenVpnPacketControlV1(session_id, acks, remote, packet_id, payload)
        wire = ref.openvpn_packet(4, 0, session_id, acks, remote, packet_id, payload)
        label = 'openvpn-control-v1'
    elif kind == 1:
        if not acks:
            acks, remote = [edge_int(rng, 32)], edge_int(rng, 64)
        lib = ovpn.OpenVpnPacketAckV1(session_id, remote, acks)
        wire = ref.openvpn_packet(5, 0, session_id, acks, remote, None, b'')
        label = 'openvpn-ack-v1'
    elif kind == 2:
        lib = ovpn.OpenVpnPacketHardResetClientV2(session_id, packet_id)
        wire = ref.openvpn_packet(7, 0, session_id, [], None, packet_id, b'')
        label = 'openvpn-hard-reset-client-v2'
    else:
        lib = ovpn.OpenVpnPacketHardResetServerV2(session_id, remote, acks, packet_id)
        wire = ref.openvpn_packet(8, 0, session_id, acks, remote, packet_id, b'')
        label = 'openvpn-hard-reset-server-v2'
    if rng.random() < 0.3:
        # the low three bits of the first octet are the key id; the model does not keep it, so parse direction only
        key_id = rng.randrange(1, 8)
        return Pair(label + '+key-id', lib, bytes([wire[0] | key_id]) + wire[1:], compose_must_match=False)
    return Pair(label, lib, wire)


def openvpn_tcp(rng):
    _, _, ovpn, _, _ = _mods()
    inner = openvpn(rng)
    return Pair('openvpn-tcp', ovpn.OpenVpnPacketWrapperTcp(inner.wire), ref.openvpn_tcp(inner.wire))


# ------------------------------------------------------------------------------------------ PostgreSQL / LDAP
def postgresql(rng):
    _, _, _, pg, _ = _mods()  # pylint: disable=invalid-name
    del rng
    return Pair('postgresql-ssl-request', pg.SslRequest(), ref.postgresql_ssl_request())


def ldap_request(rng):
    ldap, _, _, _, _ = _mods()
    del rng
    return Pair('ldap-start-tls-request', ldap.LDAPExtendedRequestStartTLS(), ref.ldap_start_tls_request(1),
                {'wire_type': 'request'})


def ldap_response(rng):
    ldap, _, _, _, _ = _mods()
    code = rng.choice(list(ldap.LDAPResultCode))
    return Pair('ldap-start-tls-response', ldap.LDAPExtendedResponseStartTLS(code), ref.ldap_start_tls_response(int(code), 1),
                {'wire_type': 'response'})


def ldap_response_variants(rng):
    """Parse direction: other message ids, a responseName, diagnostic text - all conformant responses."""
    ldap, _, _, _, _ = _mods()
    code = rng.choice(list(ldap.LDAPResultCode))
    wire = ref.ldap_start_tls_response(int(code), rng.choice([0, 1, 2, 127, 128, 65535, 2 ** 31 - 1]),
                                       rng.choice([b'', b'dc=example,dc=com']),
                                       rng.choice([b'', b'TLS already started', b'x' * 127, rbytes(rng, 200).hex().encode('ascii'),
                                                   b'd' * rng.choice([110, 120, 128, 255, 256, 70000]), b'e' * rng.randrange(95, 135)]),
                                       rng.choice([None, b'1.3.6.1.4.1.1466.20037']),
                                       rng.choice([None, None, 1, 2, 4]), rng.choice([None, None, 1, 3, 4]))
    return Pair('ldap-start-tls-response-variant', ldap.LDAPExtendedResponseStartTLS(code), wire, {'wire_type': 'response'},
                compose_must_match=False)


def ldap_request_variants(rng):
    """Parse direction: other message ids and non-minimal definite lengths (what Active Directory sends)."""
    ldap, _, _, _, _ = _mods()
    wire = ref.ldap_start_tls_request(rng.choice([0, 1, 2, 127, 128, 255, 256, 65535, 2 ** 31 - 1]),
                                      rng.choice([None, 1, 2, 4]), rng.choice([None, 1, 4]))
    return Pair('ldap-start-tls-request-variant', ldap.LDAPExtendedRequestStartTLS(), wire, {'wire_type': 'request'},
                compose_must_match=False)


def objects_only(rng):
    """Objects the constructors accept and for which no reference encoding is claimed here: only checks that need
    no reference (compose -> parse, rendering) take them."""
    _, mysql, _, _, _ = _mods()
    cap = mysql.MySQLCapability
    capabilities = subset(rng, list(cap), always=(cap.CLIENT_PLUGIN_AUTH, ))
    yield 'mysql-handshake-v10-short-scramble', mysql.MySQLHandshakeV10(
        protocol_version=rng.choice(list(mysql.MySQLVersion)), server_version=rng.choice(['5.7.33', 'x']),
        connection_id=rng.getrandbits(32), auth_plugin_data=rbytes(rng, 8), capabilities=capabilities,
        character_set=rng.choice(list(mysql.MySQLCharacterSet)), states=subset(rng, list(mysql.MySQLStatusFlag)),
        auth_plugin_data_2=rbytes(rng, rng.randrange(0, 13)), auth_plugin_name=rng.choice(['mysql_native_password', 'p']))


def generate(rng, count, failures=False):
    makers = [mysql_handshake, lambda r: mysql_handshake(r, True), mysql_ssl_request, mysql_record, tpkt,
              lambda r: x224(r, True), lambda r: x224(r, False), rdp_negotiation, openvpn, openvpn, openvpn_tcp,
              postgresql, ldap_request, ldap_response, ldap_response_variants, ldap_response_variants, ldap_request_variants]
    produced = 0
    while produced < count:
        for maker in makers:
            for pair in guarded(maker, rng, failures):
                yield pair
                produced += 1
