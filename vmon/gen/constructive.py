# -*- coding: utf-8 -*-
"""W-construct for C01 (and any check that wants constructor-built objects): the family generators that share
abstract values with the reference encoders, exposed as name -> function(rng, count) yielding (label, object)."""


def _wrap(module):
    def generate(rng, count):
        for pair in module.generate(rng, count):
            yield pair.label, pair.obj
        if hasattr(module, 'objects_only'):
            for _ in range(max(1, count // 10)):
                for label, obj in module.objects_only(rng):
                    yield label, obj
    return generate


def generators():
    from vmon.gen import dns, opp, ssh, tls  # pylint: disable=import-outside-toplevel
    return {'tls': _wrap(tls), 'ssh': _wrap(ssh), 'dns': _wrap(dns), 'opportunistic': _wrap(opp)}
