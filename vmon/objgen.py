# -*- coding: utf-8 -*-
"""W-construct (generic part): constructive objects obtained by *perturbing* the fields of valid objects
through the classes' own constructors (attr.evolve), guided by the declared validators.

Domain rule (DESIGN §2.2): the constructor is the gate. A perturbed object that the constructor rejects
is out of domain; one that compose() refuses with a documented error is out of the wire-representable
domain; everything else must round-trip.
"""
import datetime
import enum
import string

import attr

ALNUM = string.ascii_lowercase + string.digits


def sub_objects(obj, limit=40):
    """Library objects nested inside obj (each is judged on its own class as well)."""
    from cryptoparser.common.parse import ParsableBaseNoABC  # pylint: disable=import-outside-toplevel
    from cryptoparser.common.base import ArrayBase  # pylint: disable=import-outside-toplevel
    found = []
    stack = [obj]
    seen = set()
    while stack and len(found) < limit:
        current = stack.pop()
        if id(current) in seen:
            continue
        seen.add(id(current))
        children = []
        if isinstance(current, ArrayBase):
            children = list(current)
        elif isinstance(current, (list, tuple, set, frozenset)):
            children = list(current)
        elif isinstance(current, dict):
            children = list(current.values())
        elif type(current).__module__.startswith('cryptoparser.'):
            if attr.has(type(current)):
                children = [getattr(current, field.name, None) for field in attr.fields(type(current))]
            children += [value for name, value in getattr(current, '__dict__', {}).items()]
        for child in children:
            if isinstance(child, ParsableBaseNoABC) and not isinstance(child, enum.Enum) and child is not obj:
                found.append(child)
            if isinstance(child, (list, tuple, set, frozenset, dict)) or \
                    type(child).__module__.startswith('cryptoparser.'):
                stack.append(child)
    return found


def _validator_parts(validator):
    """Flatten and_/optional validators -> (is_optional, [leaf validators])."""
    optional = False
    leaves = []
    stack = [validator]
    while stack:
        current = stack.pop()
        if current is None:
            continue
        name = type(current).__name__
        if name == '_OptionalValidator':
            optional = True
            stack.append(current.validator)
        elif name == '_AndValidator':
            stack.extend(current._validators)  # pylint: disable=protected-access
        else:
            leaves.append(current)
    return optional, leaves


def _candidates(value, field, rng):  # pylint: disable=too-many-branches,too-many-return-statements
    optional, leaves = _validator_parts(field.validator)
    options = []
    del optional    # None for optional fields is not generated: its wire meaning depends on sibling fields
    enum_types = []
    for leaf in leaves:
        name = type(leaf).__name__
        if name == '_InValidator':
            try:
                choices = list(leaf.options)
            except TypeError:
                choices = []
            if choices:
                options.append(rng.choice(choices))
        elif name == '_InstanceOfValidator':
            types = leaf.type if isinstance(leaf.type, tuple) else (leaf.type, )
            enum_types += [t for t in types if isinstance(t, type) and issubclass(t, enum.Enum)]
    for enum_type in enum_types:
        members = list(enum_type)
        if members:
            options.append(rng.choice(members))
    if isinstance(value, bool):
        options.append(not value)
    elif isinstance(value, enum.Enum):
        members = list(type(value))
        options.append(rng.choice(members))
    elif isinstance(value, int):
        options += [0, 1, value + 1, max(0, value - 1), 255, 256, 65535, 65536, 2 ** 31 - 1, 2 ** 32 - 1, value ^ 0x80]
    elif isinstance(value, (bytes, bytearray)):
        kind = type(value)
        length = len(value)
        options += [kind(rng.randrange(256) for _ in range(length)), kind(b''), kind(b'\x00' * length),
                    kind(b'\xff' * max(1, length)), kind(rng.randrange(256) for _ in range(rng.choice((1, 2, 31, 32, 33, 255, 256)))),
                    kind(value[:-1]), kind(value + value[:1] if value else b'\x01')]
    elif isinstance(value, str):
        if value and all(ch in ALNUM + '.-_' for ch in value.lower()):
            options += [''.join(rng.choice(ALNUM) for _ in range(len(value))),
                        ''.join(rng.choice(ALNUM) for _ in range(rng.choice((1, 2, 17, 63)))), value + 'x', value[:-1] or 'a']
    elif isinstance(value, datetime.datetime):
        options.append(value.replace(microsecond=0) + datetime.timedelta(seconds=rng.randrange(-10 ** 8, 10 ** 8)))
        options.append(datetime.datetime(1970, 1, 1, tzinfo=value.tzinfo) + datetime.timedelta(seconds=rng.randrange(2 ** 31)))
    elif isinstance(value, datetime.timedelta):
        options += [datetime.timedelta(seconds=rng.randrange(0, 10 ** 8)), datetime.timedelta(0)]
    elif isinstance(value, (set, frozenset)) and value:
        members = list(type(next(iter(value)))) if isinstance(next(iter(value)), enum.Enum) else []
        if members:
            options.append(type(value)(m for m in members if rng.random() < 0.5))
            options.append(type(value)())
            options.append(type(value)(members))
    elif isinstance(value, (list, tuple)) or _is_array(value):
        items = list(value)
        if items:
            shuffled = items[:]
            rng.shuffle(shuffled)
            options += [items[:-1], items + [rng.choice(items)], shuffled, items[:1], items * 2, []]
            if isinstance(items[0], enum.Enum):
                members = list(type(items[0]))
                options.append([rng.choice(members) for _ in range(rng.randrange(1, 8))])
            elif isinstance(items[0], int) and not isinstance(items[0], bool):
                options.append([rng.randrange(256) for _ in range(rng.choice((0, 1, 16, 32, 33, 255)))])
    return options


def _is_array(value):
    from cryptoparser.common.base import ArrayBase  # pylint: disable=import-outside-toplevel
    return isinstance(value, ArrayBase)


def perturbations(obj, rng, count):
    """Yield (description, new object) built through the class' own constructor."""
    cls = type(obj)
    if not attr.has(cls):
        return
    fields = [field for field in attr.fields(cls) if field.init]
    if not fields:
        return
    produced = 0
    attempts = 0
    while produced < count and attempts < count * 6:
        attempts += 1
        field = rng.choice(fields)
        try:
            value = getattr(obj, field.name)
        except AttributeError:
            continue
        options = _candidates(value, field, rng)
        if not options:
            continue
        choice = rng.choice(options)
        keyword = field.name.lstrip('_')
        try:
            new = attr.evolve(obj, **{keyword: choice})
        except Exception:  # pylint: disable=broad-except
            continue    # the constructor is the gate: out of the declared domain
        produced += 1
        yield '%s.%s' % (cls.__name__, field.name), new
