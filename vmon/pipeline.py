# -*- coding: utf-8 -*-
"""Shared pieces of the generic pipelines: corpus, entry-point monitor (M1), exception signatures."""
import json
import os
import traceback

from vmon import bootstrap, inventory

CORPUS_DIR = os.path.join(bootstrap.VERIF, 'corpus')
ENTRY_POINTS = ('parse_mutable', 'parse_immutable', 'parse_exact_size')


def parse_errors():
    from cryptodatahub.common.exception import InvalidValue  # pylint: disable=import-outside-toplevel
    from cryptoparser.common.exception import (  # pylint: disable=import-outside-toplevel
        InvalidType, InvalidDataLength, NotEnoughData, TooMuchData)
    return (InvalidValue, InvalidType, InvalidDataLength, NotEnoughData, TooMuchData)


def load_corpus(accepted_only=True):
    """[(class name, bytes)] for classes that still exist and are concrete (or enum factories)."""
    parsables = inventory.parsable_classes(concrete_only=False)
    entries = []
    seen = set()
    for filename in sorted(os.listdir(CORPUS_DIR)):
        if not filename.endswith('.jsonl'):
            continue
        with open(os.path.join(CORPUS_DIR, filename)) as handle:
            for line in handle:
                line = line.strip()
                if not line:
                    continue
                record = json.loads(line)
                if accepted_only and not record.get('ok', True):
                    continue
                if record['cls'] not in parsables:
                    continue
                key = (record['cls'], record['hex'])
                if key in seen:
                    continue
                seen.add(key)
                entries.append((record['cls'], bytes.fromhex(record['hex'])))
    return entries


def corpus_by_class(accepted_only=True):
    result = {}
    for name, data in load_corpus(accepted_only):
        result.setdefault(name, []).append(data)
    return result


def compose_of(obj, cls=None):
    """'compose of the same type' (DESIGN §3): the object's own compose, or the library's primitive for
    parser-only enum factories (numeric: compose_numeric_enum_coded; opaque string codes:
    compose_string_enum_coded with the factory's prefix width)."""
    import enum  # pylint: disable=import-outside-toplevel
    if hasattr(obj, 'compose'):
        return bytes(obj.compose())
    if isinstance(obj, enum.Enum) and hasattr(obj.value, 'code'):
        from cryptoparser.common.parse import ComposerBinary  # pylint: disable=import-outside-toplevel
        composer = ComposerBinary()
        if isinstance(obj.value.code, str):
            width = cls.get_param().item_num_size if cls is not None and hasattr(cls, 'get_param') else 1
            composer.compose_string_enum_coded(obj, width)
        elif hasattr(obj.value, 'get_code_size'):
            composer.compose_numeric_enum_coded(obj)
        else:
            composer.compose_numeric(obj.value.code, cls.get_byte_num())
        return bytes(composer.composed)
    raise TypeError('no compose for %r' % type(obj))


def exception_signature(exc):
    """(exception type name, innermost function inside cryptoparser, owner class of the nearest enclosing
    _parse/compose frame) - no line numbers, no values."""
    frames = traceback.extract_tb(exc.__traceback__)
    lib_root = os.path.join(bootstrap.REPO, 'cryptoparser') + os.sep
    raising = None
    owner = None
    walk = []
    tb = exc.__traceback__
    while tb is not None:
        walk.append(tb.tb_frame)
        tb = tb.tb_next
    for frame in walk:
        code = frame.f_code
        if not code.co_filename.startswith(lib_root):
            continue
        qualname = getattr(code, 'co_qualname', code.co_name)
        raising = qualname
        if code.co_name in ('_parse', 'compose') or code.co_name.startswith('_parse') or code.co_name.startswith('compose'):
            cls = frame.f_locals.get('cls')
            if cls is None and 'self' in frame.f_locals:
                cls = type(frame.f_locals['self'])
            if isinstance(cls, type) and code.co_name in ('_parse', 'compose'):
                owner = _defining_class(cls, code) or owner
    del frames
    outside = None
    if walk:
        last = walk[-1].f_code
        if not last.co_filename.startswith(lib_root):
            module = walk[-1].f_globals.get('__name__', '?').split('.')[0]
            outside = module
    raised_in = raising or '<outside>'
    if outside:
        raised_in = '%s via %s' % (outside, raised_in)
    return type(exc).__name__, raised_in, owner or '-'


def _defining_class(cls, code):
    for klass in cls.__mro__:
        for attr_name in ('_parse', 'compose'):
            func = klass.__dict__.get(attr_name)
            func = getattr(func, '__func__', func)
            if getattr(func, '__code__', None) is code:
                return klass.__name__
            wrapped = getattr(func, '__wrapped__', None)
            if getattr(wrapped, '__code__', None) is code:
                return klass.__name__
    return cls.__name__


class EntryMonitor(object):
    """M1: wraps the three public entry points on ParsableBaseNoABC; records nested-call observations and
    evaluates the C03 postconditions in *recording mode* (never raises into the observed execution)."""

    def __init__(self):
        self.depth = 0
        self.calls = 0
        self.nested_calls = 0
        self.findings = []   # recorded postcondition failures of nested calls: dicts
        self.attached = False
        self.originals = {}
        self.armed = True

    def attach(self):
        from cryptoparser.common.parse import ParsableBaseNoABC  # pylint: disable=import-outside-toplevel
        if self.attached:
            return
        for name in ENTRY_POINTS:
            original = ParsableBaseNoABC.__dict__[name]
            self.originals[name] = original
            setattr(ParsableBaseNoABC, name, classmethod(self._wrap(name, original.__func__)))
        self.attached = True

    def detach(self):
        from cryptoparser.common.parse import ParsableBaseNoABC  # pylint: disable=import-outside-toplevel
        for name, original in self.originals.items():
            setattr(ParsableBaseNoABC, name, original)
        self.attached = False

    def _wrap(self, name, function):
        monitor = self

        def wrapper(cls, parsable):
            if not monitor.armed:
                return function(cls, parsable)
            monitor.calls += 1
            depth = monitor.depth
            if depth:
                monitor.nested_calls += 1
            try:
                before = bytes(parsable)
            except Exception:  # pylint: disable=broad-except
                before = None
            monitor.depth += 1
            try:
                result = function(cls, parsable)
            except BaseException:
                monitor.depth -= 1
                if before is not None and depth and bytes(parsable) != before:
                    monitor.findings.append({'rule': 'buffer-changed-on-failure', 'entry': name,
                                             'cls': inventory.class_name(cls), 'hex': before.hex(), 'depth': depth})
                raise
            monitor.depth -= 1
            if before is not None and depth:
                if name == 'parse_immutable':
                    consumed = result[1]
                    if not isinstance(consumed, int) or isinstance(consumed, bool) or not 0 <= consumed <= len(before):
                        monitor.findings.append({'rule': 'n-out-of-range', 'entry': name, 'n': repr(consumed),
                                                 'cls': inventory.class_name(cls), 'hex': before.hex(), 'depth': depth})
                    if bytes(parsable) != before:
                        monitor.findings.append({'rule': 'buffer-changed', 'entry': name,
                                                 'cls': inventory.class_name(cls), 'hex': before.hex(), 'depth': depth})
                elif name == 'parse_exact_size':
                    if bytes(parsable) != before:
                        monitor.findings.append({'rule': 'buffer-changed', 'entry': name,
                                                 'cls': inventory.class_name(cls), 'hex': before.hex(), 'depth': depth})
            return result
        wrapper.__wrapped__ = function
        return wrapper

    def drain(self):
        found, self.findings = self.findings, []
        return found
