# -*- coding: utf-8 -*-
"""Live inventory of the library, recomputed from the imported working tree on every run."""
import enum
import importlib
import inspect

from vmon import bootstrap

_CACHE = {}


def modules():
    if 'modules' not in _CACHE:
        _CACHE['modules'] = bootstrap.init()
    return _CACHE['modules']


def class_name(cls):
    return cls.__module__ + ':' + cls.__qualname__


def resolve(name):
    """'module:QualName' -> class."""
    module_name, qualname = name.split(':')
    obj = importlib.import_module(module_name)
    for part in qualname.split('.'):
        obj = getattr(obj, part)
    return obj


def all_classes():
    if 'classes' in _CACHE:
        return _CACHE['classes']
    seen = {}
    for module in modules():
        for _, obj in inspect.getmembers(module, inspect.isclass):
            if obj.__module__.startswith('cryptoparser.') and obj.__module__ == module.__name__:
                seen[class_name(obj)] = obj
    _CACHE['classes'] = seen
    return seen


def parsable_classes(concrete_only=True):
    from cryptoparser.common.parse import ParsableBaseNoABC  # pylint: disable=import-outside-toplevel
    result = {}
    for name, cls in sorted(all_classes().items()):
        if not issubclass(cls, ParsableBaseNoABC):
            continue
        if concrete_only and inspect.isabstract(cls):
            continue
        result[name] = cls
    return result


def vector_classes():
    from cryptoparser.common.base import ArrayBase  # pylint: disable=import-outside-toplevel
    result = {}
    from cryptoparser.common.base import OpaqueEnumParsable  # pylint: disable=import-outside-toplevel
    for name, cls in parsable_classes().items():
        if issubclass(cls, OpaqueEnumParsable):
            continue    # enum factories that reuse the Vector parser; not containers a caller edits
        if issubclass(cls, ArrayBase):
            try:
                cls.get_param()
            except Exception:  # pylint: disable=broad-except
                continue
            result[name] = cls
    return result


def enum_factories():
    """NByteEnumParsable subclasses that know their enum class (abstract by design: compose is abstract)."""
    from cryptoparser.common.base import NByteEnumParsable  # pylint: disable=import-outside-toplevel
    result = {}
    for name, cls in sorted(all_classes().items()):
        if issubclass(cls, NByteEnumParsable):
            try:
                enum_class = cls.get_enum_class()
                byte_num = cls.get_byte_num()
            except Exception:  # pylint: disable=broad-except
                continue
            if isinstance(enum_class, type) and issubclass(enum_class, enum.Enum) and isinstance(byte_num, int):
                result[name] = cls
    return result


def opaque_enum_factories():
    from cryptoparser.common.base import OpaqueEnumParsable  # pylint: disable=import-outside-toplevel
    result = {}
    for name, cls in sorted(all_classes().items()):
        if issubclass(cls, OpaqueEnumParsable) and cls is not OpaqueEnumParsable:
            try:
                cls.get_enum_class()
                cls.get_param()
            except Exception:  # pylint: disable=broad-except
                continue
            result[name] = cls
    return result


def string_enums():
    from cryptoparser.common.base import StringEnumParsableBase  # pylint: disable=import-outside-toplevel
    result = {}
    for name, cls in sorted(all_classes().items()):
        if issubclass(cls, StringEnumParsableBase) and issubclass(cls, enum.Enum) and len(list(cls)) > 0:
            result[name] = cls
    return result


def int_enums():
    result = {}
    for name, cls in sorted(all_classes().items()):
        if issubclass(cls, enum.IntEnum) and len(cls.__members__) > 0:
            result[name] = cls
    return result
