# -*- coding: utf-8 -*-
"""W-mutate: byte-level and text-level mutators over valid encodings. Every mutant carries its recipe."""

INTERESTING = (0x00, 0x01, 0x7f, 0x80, 0xfe, 0xff)
TEXT_NASTY = [b'\x00', b'\xff', b'\xc3\x28', b'\xe2\x82', b'\xf0\x9f\x92\xa9', b'\r', b'\n', b'\r\n', b' ', b'\t',
              b';', b',', b'=', b'"', b"'", b':', b'-', b'%', b'\\', b';;;;', b',,,,', b'  ', b'=;=', b'""', b'\x80']


def is_texty(data):
    if not data:
        return False
    printable = sum(1 for byte in data if 32 <= byte < 127 or byte in (9, 10, 13))
    return printable >= 0.9 * len(data)


def truncations(data, limit=256):
    if len(data) <= limit:
        offsets = range(len(data))
    else:
        step = max(1, len(data) // limit)
        offsets = sorted(set(list(range(0, 64)) + list(range(0, len(data), step)) + list(range(len(data) - 16, len(data)))))
    for offset in offsets:
        if 0 <= offset < len(data):
            yield ('truncate', offset), data[:offset]


def length_corruptions(data, rng, budget):
    """Every 1/2/3/4-byte window, both byte orders, set to interesting values relative to what follows."""
    candidates = []
    for width in (1, 2, 3, 4):
        for offset in range(0, max(0, len(data) - width + 1)):
            candidates.append((offset, width))
    if len(candidates) > budget:
        head = [c for c in candidates if c[0] < 48]
        rest = [c for c in candidates if c[0] >= 48]
        rng.shuffle(rest)
        candidates = head[:budget // 2] + rest[:budget - min(len(head), budget // 2)]
    for offset, width in candidates:
        remaining = len(data) - offset - width
        current = int.from_bytes(data[offset:offset + width], 'big')
        top = 2 ** (8 * width) - 1
        values = {0, 1, top, top - 1, current - 1, current + 1, remaining - 1, remaining + 1, remaining, current * 2,
                  2 ** (8 * width - 1)}
        value = rng.choice(sorted(v for v in values if 0 <= v <= top and v != current) or [0])
        order = 'big' if rng.random() < 0.8 else 'little'
        yield ('length', offset, width, value, order), data[:offset] + value.to_bytes(width, order) + data[offset + width:]


def bit_flips(data, rng, count):
    if not data:
        return
    for _ in range(count):
        mutated = bytearray(data)
        for _ in range(rng.choice((1, 1, 1, 2, 3, 8))):
            position = rng.randrange(len(mutated))
            mutated[position] ^= 1 << rng.randrange(8)
        yield ('bitflip', ), bytes(mutated)


def substitutions(data, rng, count):
    if not data:
        return
    for _ in range(count):
        mutated = bytearray(data)
        position = rng.randrange(len(mutated))
        mutated[position] = rng.choice(INTERESTING)
        yield ('subst', position, mutated[position]), bytes(mutated)


def splices(data, others, rng, count):
    for _ in range(count):
        other = rng.choice(others) if others else data
        kind = rng.randrange(5)
        if kind == 0:
            cut_a, cut_b = rng.randrange(len(data) + 1), rng.randrange(len(other) + 1)
            yield ('splice', cut_a, cut_b), data[:cut_a] + other[cut_b:]
        elif kind == 1:
            yield ('concat', ), data + other
        elif kind == 2:
            cut = rng.randrange(len(data) + 1)
            tail = bytes(rng.randrange(256) for _ in range(rng.randrange(1, 24)))
            yield ('prefix+random', cut), data[:cut] + tail
        elif kind == 3:
            cut = rng.randrange(len(data) + 1)
            yield ('insert', cut), data[:cut] + other[:rng.randrange(1, 1 + min(16, max(1, len(other))))] + data[cut:]
        else:
            if len(data) >= 2:
                start = rng.randrange(len(data) - 1)
                end = rng.randrange(start + 1, len(data) + 1)
                yield ('delete', start, end), data[:start] + data[end:]
                yield ('duplicate', start, end), data[:end] + data[start:end] + data[end:]


def pure_random(rng, count):
    for _ in range(count):
        length = rng.choice((0, 1, 2, 3, 4, 5, 8, 16, 32, 64, 200))
        shape = rng.randrange(3)
        if shape == 0:
            yield ('random', length), bytes(rng.randrange(256) for _ in range(length))
        elif shape == 1:
            yield ('fill', length), bytes([rng.choice(INTERESTING)]) * length
        else:
            yield ('ascii-random', length), bytes(rng.choice(b'abcXYZ019 ;,=:-_"\'/\r\n.@+~?') for _ in range(length))


def text_mutations(data, rng, count):
    if not data:
        return
    for _ in range(count):
        kind = rng.randrange(7)
        position = rng.randrange(len(data) + 1)
        if kind == 0:
            yield ('text-insert', position), data[:position] + rng.choice(TEXT_NASTY) + data[position:]
        elif kind == 1:
            nasty = rng.choice(TEXT_NASTY)
            yield ('text-replace', position), data[:position] + nasty + data[position + len(nasty):]
        elif kind == 2:
            yield ('case-flip', ), bytes(b ^ 0x20 if (65 <= b <= 90 or 97 <= b <= 122) and rng.random() < 0.5 else b
                                         for b in data)
        elif kind == 3:
            separators = [i for i, b in enumerate(data) if b in b';,= :']
            if separators:
                at = rng.choice(separators)
                storm = bytes([data[at]]) * rng.choice((2, 3, 17))
                yield ('separator-storm', at), data[:at] + storm + data[at + 1:]
        elif kind == 4:
            separators = [i for i, b in enumerate(data) if b in b';,= :']
            if separators:
                at = rng.choice(separators)
                yield ('separator-drop', at), data[:at] + data[at + 1:]
        elif kind == 5:
            yield ('upper', ), data.upper()
        else:
            yield ('space-pad', ), b' ' * rng.randrange(3) + data + b' ' * rng.randrange(1, 3)


def mutants(data, others, rng, budget):
    """About `budget` mutants of one valid encoding."""
    produced = 0
    share = max(1, budget // 6)
    streams = [
        truncations(data, limit=max(16, min(256, budget // 3))),
        length_corruptions(data, rng, share * 2),
        bit_flips(data, rng, share),
        substitutions(data, rng, share // 2 + 1),
        splices(data, others, rng, share // 2 + 1),
        pure_random(rng, max(1, share // 4)),
    ]
    if is_texty(data):
        streams.append(text_mutations(data, rng, share * 2))
    for stream in streams:
        for recipe, mutant in stream:
            produced += 1
            yield recipe, mutant
    del produced
