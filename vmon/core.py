# -*- coding: utf-8 -*-
"""Check base class, violation records, known-findings matching."""
import collections
import contextlib
import hashlib
import json
import os
import random
import time

from vmon import bootstrap

KNOWN_FINDINGS_FILE = os.path.join(bootstrap.VERIF, 'known_findings.json')


def jsonable(value):
    if isinstance(value, (bytes, bytearray)):
        return {'hex': bytes(value).hex()}
    if isinstance(value, dict):
        return {str(k): jsonable(v) for k, v in value.items()}
    if isinstance(value, (list, tuple, set, frozenset)):
        return [jsonable(v) for v in value]
    if isinstance(value, (str, int, float, bool)) or value is None:
        return value
    return repr(value)


class Violation(object):  # pylint: disable=too-few-public-methods
    def __init__(self, prop, key, what, case):
        self.prop = prop
        self.key = key
        self.what = what
        self.case = case

    def as_dict(self):
        return {'property': self.prop, 'key': self.key, 'what': self.what, 'case': jsonable(self.case)}


def load_known_findings(prop):
    if not os.path.exists(KNOWN_FINDINGS_FILE):
        return []
    with open(KNOWN_FINDINGS_FILE) as handle:
        data = json.load(handle)
    return [entry for entry in data.get('findings', []) if entry.get('property') == prop]


TIME_ZONES = ('UTC', 'EST5EDT,M3.2.0,M11.1.0', 'JST-9', 'IST-5:30', 'Europe/Moscow', 'America/Caracas', 'Pacific/Apia',
              'Australia/Lord_Howe', 'CET-1CEST,M3.5.0,M10.5.0/3', '<-03>3')


@contextlib.contextmanager
def case_time_zone(check, case):
    """The library must behave identically under every TZ, so every case is judged under a time zone picked
    deterministically from the case itself (the same case replays under the same zone). Checks that steer TZ
    themselves (C11) opt out with TZ_ROTATION = False."""
    if not getattr(check, 'TZ_ROTATION', True):
        yield
        return
    digest = hashlib.sha1(json.dumps(jsonable(case), sort_keys=True).encode('utf-8', 'replace')).digest()
    zones = [zone for zone in TIME_ZONES if '/' not in zone or os.path.exists('/usr/share/zoneinfo/' + zone)]
    zone = zones[digest[0] % len(zones)]
    before = os.environ.get('TZ')
    os.environ['TZ'] = zone
    time.tzset()
    try:
        yield
    finally:
        if before is None:
            os.environ.pop('TZ', None)
        else:
            os.environ['TZ'] = before
        time.tzset()


def key_matches(entry_key, key):
    """Entries may end with '*' to cover a family that differs only in the final component."""
    if entry_key.endswith('*'):
        return key.startswith(entry_key[:-1])
    return entry_key == key


class CheckBase(object):  # pylint: disable=too-many-instance-attributes
    ID = None
    TECHNIQUE = ''
    RULE = ''
    ASSUMPTIONS = ()
    SHARDS = {'quick': 1, 'thorough': 16}
    EXHAUSTIVE = False
    MAX_SAMPLES = 8
    TZ_ROTATION = True

    def __init__(self, tier, seed, shard=0, nshards=1):
        self.tier = tier
        self.seed = seed
        self.shard = shard
        self.nshards = nshards
        self.rng = random.Random('%s/%s/%s/%s' % (self.ID, seed, shard, nshards))
        # plan_rng is shard-independent: every shard enumerates the *same* case sequence and keeps its share
        self.plan_rng = random.Random('%s/%s/plan' % (self.ID, seed))
        self.stats = collections.Counter()
        self.evaluations = 0
        self.digests = set()
        self.samples = []
        self.notes = {}
        self.inconclusive = []

    # -- to be provided by checks ------------------------------------------------------
    def setup(self):
        pass

    def cases(self):
        """Yield JSON-able case dicts; deterministic for (seed, shard, nshards, tier)."""
        raise NotImplementedError()

    def judge(self, case):
        """Execute the case under the monitors; return a list of Violation."""
        raise NotImplementedError()

    def floors(self):
        """stat name -> minimum total over all shards; below it the run is inconclusive."""
        return {}

    def finish(self):
        """Extra coverage keys for the evidence (per shard; merged by summing ints / union lists)."""
        return {}

    # -- helpers -------------------------------------------------------------------------
    def mine(self, index):
        return index % self.nshards == self.shard

    def observe(self, identity, nontrivial=True, sample=None):
        self.evaluations += 1
        if nontrivial:
            digest = hashlib.sha1(repr(identity).encode('utf-8', 'replace')).hexdigest()[:16]
            if digest not in self.digests:
                self.digests.add(digest)
                if sample is not None:
                    if len(self.samples) < self.MAX_SAMPLES:
                        self.samples.append(jsonable(sample))
                    elif self.rng.random() < 0.002:
                        self.samples[self.rng.randrange(self.MAX_SAMPLES)] = jsonable(sample)

    def violation(self, key, what, case):
        return Violation(self.ID, '%s|%s' % (self.ID, key), what, case)
