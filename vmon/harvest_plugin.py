# -*- coding: utf-8 -*-
"""pytest plugin (-p vmon.harvest_plugin): logs every parse entry-point call made while the repository's
own tests run: (class, entry, input bytes, outcome).  Output: VERIF_HARVEST_OUT (jsonl)."""
import json
import os

_RECORDS = []
_DEPTH = [0]


def pytest_configure(config):  # pylint: disable=unused-argument
    from cryptoparser.common.parse import ParsableBaseNoABC  # pylint: disable=import-outside-toplevel

    def wrap(name):
        original = ParsableBaseNoABC.__dict__[name].__func__

        def wrapper(cls, parsable):
            try:
                data = bytes(parsable)
            except Exception:  # pylint: disable=broad-except
                data = None
            _DEPTH[0] += 1
            try:
                result = original(cls, parsable)
            except BaseException as e:  # pylint: disable=broad-except
                _DEPTH[0] -= 1
                if data is not None:
                    _RECORDS.append((cls.__module__, cls.__qualname__, name, data, type(e).__name__, _DEPTH[0]))
                raise
            _DEPTH[0] -= 1
            if data is not None:
                consumed = result[1] if name == 'parse_immutable' else None
                _RECORDS.append((cls.__module__, cls.__qualname__, name, data, 'ok', _DEPTH[0], consumed))
            return result
        setattr(ParsableBaseNoABC, name, classmethod(wrapper))

    for entry in ('parse_mutable', 'parse_immutable', 'parse_exact_size'):
        wrap(entry)


def pytest_unconfigure(config):  # pylint: disable=unused-argument
    out = os.environ.get('VERIF_HARVEST_OUT')
    if not out:
        return
    seen = set()
    with open(out, 'w') as handle:
        for record in _RECORDS:
            module, qualname, entry, data, outcome, depth = record[:6]
            if not module.startswith('cryptoparser.') or len(data) > 20000:
                continue
            key = (module, qualname, data, outcome == 'ok')
            if key in seen:
                continue
            seen.add(key)
            handle.write(json.dumps({'cls': module + ':' + qualname, 'hex': data.hex(), 'ok': outcome == 'ok',
                                     'outcome': outcome, 'depth': depth}) + '\n')
