# -*- coding: utf-8 -*-
"""C17 - TLS protocol versions form a strict total order consistent with equality.

Order monitor, exhaustive over the live TlsVersion enum: all ordered pairs (trichotomy, operator
consistency, eq/hash), all triples (transitivity), the documented chain, and order-of-arrival
independence of sorted/min/max/set on shuffled lists.
"""
import itertools
import re

from vmon import core


def category(name):
    """Independent classification from the *member name* (not from library predicates)."""
    match = re.match(r'^TLS1_3_DRAFT_(\d+)$', name)
    if match:
        return ('draft', int(match.group(1)))
    match = re.match(r'^TLS1_3_GOOGLE_EXPERIMENT_(\d+)$', name)
    if match:
        return ('experiment', int(match.group(1)))
    fixed = {'SSL2': 0, 'SSL3': 1, 'TLS1': 2, 'TLS1_0': 2, 'TLS1_1': 3, 'TLS1_2': 4, 'TLS1_3': 6}
    if name in fixed:
        return ('final', fixed[name])
    return ('other', None)


def expected_less(name_a, name_b):
    """True/False when the statement fixes the order of a, b; None when it leaves it free."""
    cat_a, cat_b = category(name_a), category(name_b)
    if 'other' in (cat_a[0], cat_b[0]):
        return None
    rank_a = cat_a[1] if cat_a[0] == 'final' else 5
    rank_b = cat_b[1] if cat_b[0] == 'final' else 5
    if rank_a != rank_b:
        return rank_a < rank_b
    if cat_a[0] == 'draft' and cat_b[0] == 'draft' and cat_a[1] != cat_b[1]:
        return cat_a[1] < cat_b[1]
    return None


def kind(name):
    cat = category(name)
    if cat[0] == 'final':
        return 'tls1.3' if cat[1] == 6 else 'legacy'
    return cat[0]


class Check(core.CheckBase):
    ID = 'C17'
    TECHNIQUE = 'runtime order monitor, exhaustive over all version pairs and triples'
    RULE = ('every ordered pair and every ordered triple of the live TlsVersion enum is evaluated on the real '
            'TlsProtocolVersion operators; a case is one pair, one triple or one shuffle; all are distinct by '
            'construction; non-trivial = members not all identical')
    EXHAUSTIVE = True
    SHARDS = {'quick': 1, 'thorough': 1}
    ASSUMPTIONS = ('member names TLS1_3_DRAFT_n / TLS1_3_GOOGLE_EXPERIMENT_n identify drafts and experiments', )

    def setup(self):
        from cryptodatahub.tls.version import TlsVersion  # pylint: disable=import-outside-toplevel
        from cryptoparser.tls.version import TlsProtocolVersion  # pylint: disable=import-outside-toplevel
        self.enum = TlsVersion
        self.cls = TlsProtocolVersion
        self.names = [member.name for member in TlsVersion]
        self.lt_cache = {}

    def make(self, name):
        return self.cls(self.enum[name])

    def less(self, name_a, name_b):
        pair = (name_a, name_b)
        if pair not in self.lt_cache:
            self.lt_cache[pair] = bool(self.make(name_a) < self.make(name_b))
            self.stats['lt_evaluations'] += 1
        return self.lt_cache[pair]

    def cases(self):
        for name in self.names:
            yield {'kind': 'pairs', 'a': name}
        for name in self.names:
            yield {'kind': 'triples', 'a': name}
        shuffles = 200 if self.tier == 'quick' else 5000
        for index in range(shuffles):
            yield {'kind': 'shuffle', 'index': index}
        for hash_seed in ((101, ) if self.tier == 'quick' else (101, 202, 303, 0)):
            yield {'kind': 'transported', 'hash_seed': hash_seed}

    def judge(self, case):  # pylint: disable=too-many-branches,too-many-locals
        found = []
        if case['kind'] == 'pair':      # single-pair witness
            return self.judge_pair(case['a'], case['b'])
        if case['kind'] == 'triple':    # single-triple witness
            return self.judge_triple(case['a'], case['b'], case['c'])
        if case['kind'] == 'pairs':
            for name_b in self.names:
                found.extend(self.judge_pair(case['a'], name_b))
        elif case['kind'] == 'triples':
            for name_b, name_c in itertools.product(self.names, repeat=2):
                found.extend(self.judge_triple(case['a'], name_b, name_c))
        elif case['kind'] == 'shuffle':
            found.extend(self.judge_shuffle(case))
        elif case['kind'] == 'transported':
            found.extend(self.judge_transported(case))
        return found

    def judge_transported(self, case):
        """Versions that were compared, sorted and hashed in ANOTHER interpreter (other string hash seed) and arrive here by
        pickle, and copies made with copy / deepcopy, are the same versions: equal to fresh ones, same hash, found in their sets,
        same place in the order."""
        import copy  # pylint: disable=import-outside-toplevel
        import os  # pylint: disable=import-outside-toplevel
        import pickle  # pylint: disable=import-outside-toplevel
        import subprocess  # pylint: disable=import-outside-toplevel
        import sys  # pylint: disable=import-outside-toplevel
        from vmon import bootstrap  # pylint: disable=import-outside-toplevel
        found = []
        program = ('import sys, pickle; sys.path.insert(0, %r); from vmon import bootstrap; bootstrap.init(); '
                   'from cryptodatahub.tls.version import TlsVersion; from cryptoparser.tls.version import TlsProtocolVersion; '
                   'versions = [TlsProtocolVersion(member) for member in TlsVersion]; sorted(versions); max(versions); '
                   '[hash(v) for v in versions]; set(versions); print("C17CHILD " + pickle.dumps(versions, 2).hex())' % bootstrap.VERIF)
        env = dict(os.environ, PYTHONHASHSEED=str(case['hash_seed']))
        proc = subprocess.run([sys.executable, '-c', program], env=env, cwd=bootstrap.VERIF, capture_output=True, text=True,
                              timeout=300, check=False)
        line = [l for l in proc.stdout.splitlines() if l.startswith('C17CHILD ')]
        if not line:
            self.inconclusive.append('transport child failed: %s' % proc.stderr[-200:])
            return found
        arrived = pickle.loads(bytes.fromhex(line[0][len('C17CHILD '):]))
        fresh = [self.make(name) for name in self.names]
        groups = [('pickled in another interpreter', arrived)]
        used = [self.make(name) for name in self.names]
        sorted(used)
        [hash(v) for v in used]
        groups.append(('copy.copy', [copy.copy(v) for v in used]))
        groups.append(('copy.deepcopy', copy.deepcopy(used)))
        groups.append(('pickle round trip', pickle.loads(pickle.dumps(used, 2))))
        holder = set(fresh)
        for label, versions in groups:
            self.stats['transported_versions'] += len(versions)
            self.observe(('transported', label, case['hash_seed']), True, dict(case, how=label))
            for name, local, other in zip(self.names, fresh, versions):
                if not other == local or other != local:
                    found.append(self.violation('transported|not-equal', '%s %s is not equal to a fresh %s' % (name, label, name), case))
                    break
                if hash(other) != hash(local) or other not in holder:
                    found.append(self.violation('transported|hash', 'a %s that was %s equals a fresh one but hashes differently / is not '
                                                'found in a set of fresh versions' % (name, label), case))
                    break
            if [v.version.name for v in sorted(versions)] != [v.version.name for v in sorted(fresh)]:
                found.append(self.violation('transported|order', 'versions that were %s sort differently' % label, case))
        return found

    def judge_pair(self, name_a, name_b):
        found = []
        case = {'kind': 'pair', 'a': name_a, 'b': name_b}
        ver_a, ver_b = self.make(name_a), self.make(name_b)
        self.observe(('pair', name_a, name_b), name_a != name_b, case)
        self.stats['pairs'] += 1
        kinds = '%s-vs-%s' % (kind(name_a), kind(name_b))
        # every comparison operator answers with a truth value for every pair of versions
        import operator  # pylint: disable=import-outside-toplevel
        for symbol, function in (('<', operator.lt), ('<=', operator.le), ('>', operator.gt), ('>=', operator.ge),
                                 ('==', operator.eq), ('!=', operator.ne)):
            try:
                answer = function(ver_a, ver_b)
                if answer is NotImplemented or not isinstance(bool(answer), bool):
                    raise TypeError('answered %r' % (answer, ))
            except Exception as e:  # pylint: disable=broad-except
                found.append(self.violation('operator-raises|%s|%s' % (symbol, kinds),
                                            '%s %s %s raises %r' % (name_a, symbol, name_b, e), case))
        if found:
            return found
        less, greater, equal = bool(ver_a < ver_b), bool(ver_a > ver_b), bool(ver_a == ver_b)
        if [less, equal, greater].count(True) != 1:
            found.append(self.violation(
                'trichotomy|' + kinds,
                '%s ? %s: lt=%s eq=%s gt=%s (exactly one must hold)' % (name_a, name_b, less, equal, greater), case))
        if equal != (name_a == name_b):
            found.append(self.violation('equality|' + kinds, '%s == %s is %s' % (name_a, name_b, equal), case))
        if bool(ver_a != ver_b) == equal:
            found.append(self.violation('ne-inconsistent|' + kinds, '%s != %s disagrees with ==' % (name_a, name_b), case))
        if equal and hash(ver_a) != hash(ver_b):
            found.append(self.violation('hash|' + kinds, 'equal versions %s hash differently' % name_a, case))
        if bool(ver_a <= ver_b) != (less or equal) or bool(ver_a >= ver_b) != (greater or equal):
            found.append(self.violation('le-ge-inconsistent|' + kinds, '%s, %s: <=/>= disagree with </==' % (name_a, name_b), case))
        if greater != bool(ver_b < ver_a):
            found.append(self.violation('gt-not-converse|' + kinds, '%s > %s is %s but converse < is %s' % (
                name_a, name_b, greater, not greater), case))
        expected = expected_less(name_a, name_b)
        if expected is not None:
            self.stats['chain_pairs'] += 1
            if less != expected:
                found.append(self.violation(
                    'chain|' + kinds, '%s < %s is %s, the documented order says %s' % (name_a, name_b, less, expected),
                    case))
        if equal and (ver_a in {ver_b}) is not True:
            found.append(self.violation('set-membership|' + kinds, '%s not found in a set holding its equal' % name_a, case))
        return found

    def judge_triple(self, name_a, name_b, name_c):
        self.stats['triples'] += 1
        self.observe(('triple', name_a, name_b, name_c), len({name_a, name_b, name_c}) > 1)
        if self.less(name_a, name_b) and self.less(name_b, name_c) and not self.less(name_a, name_c):
            case = {'kind': 'triple', 'a': name_a, 'b': name_b, 'c': name_c}
            kinds = '-'.join(sorted({kind(name_a), kind(name_b), kind(name_c)}))
            return [self.violation(
                'intransitive|' + kinds, '%s < %s and %s < %s but not %s < %s' % (
                    name_a, name_b, name_b, name_c, name_a, name_c), case)]
        return []

    def judge_shuffle(self, case):
        import random  # pylint: disable=import-outside-toplevel
        rng = random.Random('C17/%s/%s' % (self.seed, case['index']))
        subset = rng.sample(self.names, rng.randint(2, len(self.names)))
        self.observe(('shuffle', tuple(subset)), True, dict(case, members=subset))
        self.stats['shuffles'] += 1
        found = []
        reference = None
        # history: hash / set membership of the SAME objects before and after they took part in ordering
        objects = [self.make(name) for name in subset]
        hashes_before = [hash(obj) for obj in objects]
        holder = set(objects)
        sorted(objects)
        max(objects)
        min(objects)
        if [hash(obj) for obj in objects] != hashes_before:
            found.append(self.violation('hash-unstable|after-ordering',
                                        'hash() of a version changes once it has been compared/sorted', case))
        elif not all(obj in holder for obj in objects):
            found.append(self.violation('set-membership|after-ordering',
                                        'a version is no longer found in the set it was put into after sorting', case))
        else:
            for name, obj in zip(subset, objects):
                fresh = self.make(name)
                if hash(fresh) != hash(obj) or fresh not in holder or len({fresh, obj}) != 1:
                    found.append(self.violation('hash|used-vs-fresh',
                                                'an already compared %s and a fresh equal one hash differently' % name, case))
                    break
        self.stats['hash_history_checks'] += 1
        for _ in range(4):
            rng.shuffle(subset)
            versions = [self.make(name) for name in subset]
            result = (
                tuple(v.version.name for v in sorted(versions)),
                max(versions).version.name,
                min(versions).version.name,
                len(set(versions)),
            )
            if reference is None:
                reference = result
            elif result != reference:
                which = [n for n, (x, y) in zip(('sorted', 'max', 'min', 'set-size'), zip(result, reference)) if x != y]
                found.append(self.violation(
                    'arrival-order|' + '+'.join(which),
                    'sorted/max/min/set of the same versions depend on arrival order: %r vs %r' % (
                        result[1:], reference[1:]), case))
                break
        if reference is not None and not found:
            # the sorted result must respect the documented chain
            names = list(reference[0])
            for left, right in zip(names, names[1:]):
                if expected_less(left, right) is False:
                    found.append(self.violation('sorted-against-chain', 'sorted() puts %s before %s' % (left, right), case))
                    break
            if len(set(subset)) != reference[3]:
                found.append(self.violation('set-size', 'set of %d distinct versions has %d elements' % (
                    len(set(subset)), reference[3]), case))
        return found

    def floors(self):
        return {'pairs': 30 * 30, 'triples': 30 ** 3, 'shuffles': 100, 'chain_pairs': 500}

    def finish(self):
        return {'members': len(self.names), 'pairs_total': len(self.names) ** 2, 'triples_total': len(self.names) ** 3}
