# -*- coding: utf-8 -*-
"""C03 - reported consumed length is exact; framing units are self-delimiting.

Contract monitor on the three entry points (postconditions evaluated on every top-level call, and in
recording mode on every nested call through the M1 entry-point monitor) plus the self-delimiting
monitor with an independent frame-length decoder (vmon/ref/framing.py).
"""
import random

from vmon import core, inventory, mutate, pipeline, structural
from vmon.ref import framing

BUDGET = {'quick': 60, 'thorough': 1500}
FRAME_BUDGET = {'quick': 300, 'thorough': 8000}
REFERENCE_BLOCKS = {'quick': 4, 'thorough': 60}     # per protocol family, 60 reference encodings each
POSITIVE_N = ('TlsRecord', 'SslRecord', 'TlsHandshakeMessage', 'TlsHandshakeMessageVariant', 'SshRecordBase',
              'SshProtocolMessage', 'MySQLRecord', 'TPKT', 'OpenVpnPacketWrapperTcp', 'LDAPMessageParsableBase',
              'SslRequest', 'Sync')


def parse_owner(cls):
    for klass in cls.__mro__:
        if '_parse' in klass.__dict__:
            return klass.__name__
    return cls.__name__


class Check(core.CheckBase):
    ID = 'C03'
    TECHNIQUE = 'runtime contract monitor (entry-point postconditions) + self-delimiting monitor vs independent frame-length decoder'
    RULE = ('every case is one (class, buffer): valid encodings of the seed corpus, their mutants, and for the framing '
            'units valid/corrupted frames followed by suffixes and concatenations; on each the three entry points are '
            'run and the postconditions compared; distinct = SHA-1 of (class, buffer); non-trivial = the buffer was '
            'accepted by parse_immutable (only then the length postconditions have content) or it is a mutant of a '
            'valid encoding (buffer-untouched-on-failure postcondition)')
    SHARDS = {'quick': 8, 'thorough': 16}
    ASSUMPTIONS = ('frame length decoders in vmon/ref/framing.py are my reading of RFC 5246/6101/4253/1006/4511, the '
                   'SSL 2.0 draft, the MySQL and OpenVPN protocol documents',
                   'the SSH identification string is delimited by the first LF')

    def setup(self):
        self.allowed = pipeline.parse_errors()
        from cryptoparser.common.exception import TooMuchData  # pylint: disable=import-outside-toplevel
        self.TooMuchData = TooMuchData  # pylint: disable=invalid-name
        self.corpus = pipeline.corpus_by_class()
        self.all_seeds = [data for seeds in self.corpus.values() for data in seeds]
        self.classes = inventory.parsable_classes(concrete_only=False)
        self.monitor = pipeline.EntryMonitor()
        self.monitor.attach()
        self.framing = {}
        for name, cls in self.classes.items():
            if framing.decoder_for(cls) is not None:
                self.framing[name] = framing.decoder_for(cls)

    # ------------------------------------------------------------------ workload
    def cases(self):
        index = 0
        for name in sorted(self.corpus):
            if name not in self.classes:
                continue
            for seed_index in range(len(self.corpus[name])):
                index += 1
                if self.mine(index):
                    yield {'kind': 'seed', 'cls': name, 'seed_index': seed_index, 'of': len(self.corpus[name])}
        for name in sorted(self.framing):
            for seed_index in range(len(self.corpus.get(name, []))):
                index += 1
                if self.mine(index):
                    yield {'kind': 'frame-seed', 'cls': name, 'seed_index': seed_index, 'of': len(self.corpus[name])}

        for family in ('tls', 'ssh', 'dns', 'opp'):
            for block in range(REFERENCE_BLOCKS[self.tier]):
                index += 1
                if self.mine(index):
                    yield {'kind': 'reference', 'cls': family, 'block': block}
        index += 1
        if self.mine(index):
            yield {'kind': 'order-independence'}

    ORDERS = {'quick': ['sorted', 'reversed', 'interleaved', 'rotate-3'],
              'thorough': ['sorted', 'reversed', 'interleaved'] + ['rotate-%d' % n for n in (1, 2, 3, 5, 8, 13, 21)] +
                          ['shuffle-%d' % n for n in range(6)]}

    def order_entries(self):
        """The whole seed corpus plus reference encodings of every protocol family: [class name, hex]."""
        import importlib  # pylint: disable=import-outside-toplevel
        entries = [[name, data.hex()] for name, data in pipeline.load_corpus()]
        for family in ('tls', 'ssh', 'dns', 'opp'):
            rng = random.Random('C03/order/%s' % family)
            for pair in importlib.import_module('vmon.gen.' + family).generate(rng, 120 if self.tier == 'quick' else 600):
                if len(pair.wire) <= 20000:
                    entries.append([inventory.class_name(pair.cls), pair.wire.hex()])
        return entries

    def judge_order_independence(self, case):
        """n and the parsed object are a function of the bytes alone: the same entries parsed in fresh interpreters in
        different orders give the same outcome entry by entry (vmon/orderfree.py)."""
        from vmon import orderfree  # pylint: disable=import-outside-toplevel
        entries = self.order_entries()
        labels = self.ORDERS[self.tier]
        results, problems = orderfree.run_children(entries, labels)
        self.inconclusive.extend(problems)
        found = {}
        if len(results) < 2:
            return []
        base_label = labels[0] if labels[0] in results else sorted(results)[0]
        for index, (name, hex_data) in enumerate(entries):
            self.stats['order_entries_compared'] += 1
            base = results[base_label].get(index)
            for label in results:
                other = results[label].get(index)
                if other != base:
                    short = name.split(':')[1]
                    key = 'order-dependent|%s' % short
                    if key not in found:
                        found[key] = self.violation(
                            key, '%s(%s..): parsed in a fresh interpreter the outcome is %s in order %r but %s in order %r - what '
                            'was parsed before changes the result' % (short, hex_data[:40], base.split(':')[0:2], base_label,
                                                                      other.split(':')[0:2], label), case)
                    break
        self.stats['order_children'] += len(results)
        self.observe(('order-independence', tuple(labels)), True, {'kind': 'order-independence', 'entries': len(entries),
                                                                   'orders': sorted(results)})
        return list(found.values())

    def judge_reference(self, case):
        """Encodings written by the independent reference encoders for generator-built values (header forms and field
        combinations the library's own compose never produces), alone and followed by other bytes."""
        import importlib  # pylint: disable=import-outside-toplevel
        rng = random.Random('C03/ref/%s/%s/%s' % (self.seed, case['cls'], case['block']))
        found = []
        for pair in importlib.import_module('vmon.gen.' + case['cls']).generate(rng, 60):
            name = inventory.class_name(pair.cls)
            self.stats['reference_encodings'] += 1
            found.extend(self.judge_input(name, pair.wire, ('reference', pair.label)))
            if name in self.framing:
                tail = bytes(rng.randrange(256) for _ in range(rng.randrange(1, 40))) if rng.random() < 0.5 else pair.wire
                found.extend(self.judge_input(name, pair.wire + tail, ('reference+suffix', pair.label)))
        return found

    def judge(self, case):
        if case['kind'] == 'input':
            return self.judge_input(case['cls'], bytes.fromhex(case['hex']), ('replay', ))
        if case['kind'] == 'reference':
            return self.judge_reference(case)
        if case['kind'] == 'order-independence':
            return self.judge_order_independence(case)
        name = case['cls']
        rng = random.Random('C03/%s/%s/%s/%s' % (self.seed, case['kind'], name, case['seed_index']))
        data = self.corpus[name][case['seed_index']]
        found = []
        if case['kind'] == 'seed':
            found.extend(self.judge_input(name, data, ('seed', )))
            budget = max(10, BUDGET[self.tier] // case['of'])
            others = self.corpus[name] + [rng.choice(self.all_seeds) for _ in range(3)]
            for recipe, mutant in mutate.mutants(data, others, rng, budget):
                found.extend(self.judge_input(name, mutant, recipe))
            return found
        # frame workload: suffixes, concatenations, header corruptions
        budget = max(20, FRAME_BUDGET[self.tier] // case['of'])
        frames = self.corpus[name]
        for number in range(budget):
            kind = number % 5
            if kind == 0:
                buf, recipe = data + bytes(rng.randrange(256) for _ in range(rng.randrange(1, 65))), ('frame+random', )
            elif kind == 1:
                buf, recipe = data + rng.choice(frames), ('frame+frame', )
            elif kind == 2:
                buf = b''.join(rng.choice(frames) for _ in range(rng.randrange(2, 6)))
                recipe = ('frames', )
            elif kind == 3:
                header = bytearray(data)
                for _ in range(rng.choice((1, 1, 2))):
                    position = rng.randrange(min(len(header), 12))
                    header[position] = rng.choice((0, 1, 2, 3, 4, 5, 8, 0x7f, 0x80, 0xff, rng.randrange(256),
                                                   (header[position] + 1) & 0xff, (header[position] - 1) & 0xff))
                buf = bytes(header) + (b'' if rng.random() < 0.5 else bytes(rng.randrange(256) for _ in range(rng.randrange(40))))
                recipe = ('header-corruption', )
            else:
                buf, recipe = data + b'\xff' * rng.choice((1, 7, 4096)), ('frame+ff', )
            found.extend(self.judge_input(name, buf, recipe))
        return found

    # ------------------------------------------------------------------ oracle
    def judge_input(self, name, buf, recipe):  # pylint: disable=too-many-branches,too-many-statements,too-many-locals
        cls = self.classes.get(name) or inventory.resolve(name)
        owner = parse_owner(cls)
        case = {'kind': 'input', 'cls': name, 'hex': buf.hex()}
        found = []
        self.monitor.findings = []

        def add(rule, what):
            found.append(self.violation('%s|%s' % (rule, owner), '%s(%s%s): %s' % (
                name.split(':')[1], buf[:32].hex(), '..' if len(buf) > 32 else '', what), case))

        # parse_immutable on a mutable copy (buffer must stay untouched whatever happens)
        probe = bytearray(buf)
        accepted = False
        obj = consumed = None
        error = None
        try:
            obj, consumed = cls.parse_immutable(probe)
            accepted = True
        except self.allowed as e:
            error = e
        except Exception:  # pylint: disable=broad-except
            self.stats['leaks_ignored_here'] += 1   # C02's business
            self.observe((name, buf), False)
            return found
        if bytes(probe) != buf:
            add('buffer-changed' if accepted else 'buffer-changed-on-failure', 'parse_immutable modified the caller\'s buffer')
        self.stats['accepted' if accepted else 'rejected'] += 1
        self.observe((name, buf), accepted or recipe[0] not in ('random', 'fill', 'ascii-random'),
                     {'cls': name, 'hex': buf[:48].hex(), 'len': len(buf), 'recipe': str(recipe[0]),
                      'n': consumed, 'error': type(error).__name__ if error else None})
        self.notes.setdefault('classes', set()).add(name)

        if accepted:
            if not isinstance(consumed, int) or isinstance(consumed, bool) or not 0 <= consumed <= len(buf):
                add('n-out-of-range', 'consumed length %r reported for a %d-byte buffer' % (consumed, len(buf)))
                return found
            if consumed == 0 and any(k.__name__ in POSITIVE_N for k in cls.__mro__):
                add('n-not-positive', 'a record/handshake/banner class accepted with n == 0')
            self.stats['length_postconditions'] += 1

        # the same octets as an immutable bytes object: the kind of buffer is not part of the input
        self.stats['buffer_kinds_compared'] += 1
        try:
            obj_bytes, consumed_bytes = cls.parse_immutable(bytes(buf))
            if not accepted:
                add('buffer-kind-differs', 'accepted as bytes, rejected as bytearray with %s' % type(error).__name__)
            elif consumed_bytes != consumed or not structural.equal(obj_bytes, obj):
                add('buffer-kind-differs', 'bytes and bytearray holding the same octets are read differently (n=%r / n=%r)' % (
                    consumed_bytes, consumed))
        except self.allowed as e:
            if accepted:
                add('buffer-kind-differs', 'accepted as bytearray, rejected as bytes with %s' % type(e).__name__)
        except Exception:  # pylint: disable=broad-except
            self.stats['leaks_ignored_here'] += 1

        # parse_mutable
        mutable = bytearray(buf)
        try:
            obj_mutable = cls.parse_mutable(mutable)
            if not accepted:
                add('mutable-outcome-differs', 'parse_mutable accepted what parse_immutable rejected with %s' % type(error).__name__)
            else:
                if bytes(mutable) != buf[consumed:]:
                    add('mutable-remainder', 'parse_mutable left %d bytes, expected exactly the %d bytes after n=%d' % (
                        len(mutable), len(buf) - consumed, consumed))
                if not structural.equal(obj_mutable, obj):
                    add('mutable-object-differs', 'parse_mutable and parse_immutable returned different objects')
        except self.allowed as e:
            if accepted:
                add('mutable-outcome-differs', 'parse_mutable raised %s on a buffer parse_immutable accepts' % type(e).__name__)
            if bytes(mutable) != buf:
                add('buffer-changed-on-failure', 'parse_mutable failed with %s and modified the buffer' % type(e).__name__)
        except Exception as e:  # pylint: disable=broad-except
            if bytes(mutable) != buf:
                add('buffer-changed-on-failure', 'parse_mutable failed with %s and modified the buffer' % type(e).__name__)

        # parse_exact_size
        exact = bytearray(buf)
        try:
            obj_exact = cls.parse_exact_size(exact)
            if not accepted:
                add('exact-outcome-differs', 'parse_exact_size accepted what parse_immutable rejected')
            elif consumed != len(buf):
                add('exact-accepts-partial', 'parse_exact_size succeeded although n=%d < len=%d' % (consumed, len(buf)))
            elif not structural.equal(obj_exact, obj):
                add('exact-object-differs', 'parse_exact_size and parse_immutable returned different objects')
        except self.allowed as e:
            if accepted and consumed == len(buf):
                add('exact-rejects-full', 'parse_exact_size raised %s although n == len(buffer)' % type(e).__name__)
            elif accepted and not isinstance(e, self.TooMuchData):
                add('exact-wrong-error', 'n=%d < len=%d must be TooMuchData, got %s' % (consumed, len(buf), type(e).__name__))
        except Exception:  # pylint: disable=broad-except
            pass
        if bytes(exact) != buf:
            add('buffer-changed', 'parse_exact_size modified the caller\'s buffer')

        # postconditions of nested calls recorded by M1: confirm by top-level replay on the inner class
        for record in self.monitor.drain():
            self.stats['nested_findings_recorded'] += 1
            inner = bytes.fromhex(record['hex'])
            if record['cls'] != name or inner != buf:
                found.extend(self.judge_input(record['cls'], inner, ('nested-replay', )))

        decoder = self.framing.get(name)
        if accepted and decoder is not None:
            found.extend(self.judge_frame(name, cls, owner, buf, obj, consumed, decoder, case))
        return found

    def judge_frame(self, name, cls, owner, buf, obj, consumed, decoder, case):  # pylint: disable=too-many-arguments
        found = []
        self.stats['frames_judged'] += 1

        def add(rule, what):
            found.append(self.violation('%s|%s' % (rule, owner), '%s(%s%s): %s' % (
                name.split(':')[1], buf[:32].hex(), '..' if len(buf) > 32 else '', what), case))

        declared = decoder(buf)
        if declared is not None and declared != consumed:
            add('n-not-declared', 'consumed n=%d but the frame header declares %d bytes (buffer %d)' % (
                consumed, declared, len(buf)))
        variants = [('prefix', buf[:consumed])]
        tail_rng = random.Random(len(buf) * 31 + consumed)
        variants.append(('suffix-byte', buf[:consumed] + bytes([tail_rng.randrange(256)])))
        variants.append(('suffix-frame', buf[:consumed] + buf[:consumed]))
        variants.append(('suffix-random', buf[:consumed] + bytes(tail_rng.randrange(256) for _ in range(tail_rng.randrange(1, 65)))))
        variants.append(('suffix-ff', buf[:consumed] + b'\xff' * 64))
        for label, variant in variants:
            self.stats['self_delimiting_evaluations'] += 1
            try:
                other, other_consumed = cls.parse_immutable(variant)
            except Exception as e:  # pylint: disable=broad-except
                add('self-delimiting|%s-rejected' % label.split('-')[0],
                    'first n=%d bytes %s are rejected with %s' % (
                        consumed, 'alone' if label == 'prefix' else 'followed by other bytes (%s)' % label,
                        type(e).__name__))
                continue
            if other_consumed != consumed:
                add('self-delimiting|%s-n-differs' % label.split('-')[0],
                    'n changes from %d to %d when the frame is %s' % (
                        consumed, other_consumed, 'parsed alone' if label == 'prefix' else 'followed by ' + label))
            elif not structural.equal(other, obj):
                add('self-delimiting|%s-object-differs' % label.split('-')[0],
                    'the parsed object changes when the frame is %s' % (
                        'parsed alone' if label == 'prefix' else 'followed by ' + label))
        return found

    def floors(self):
        return {'accepted': 2000, 'rejected': 2000, 'length_postconditions': 2000, 'frames_judged': 300,
                'self_delimiting_evaluations': 1500, 'classes': 300, 'reference_encodings': 400, 'order_children': 3,
                'order_entries_compared': 1000}

    def finish(self):
        return {'classes': sorted(self.notes.get('classes', set())),
                'framing_units': sorted(n.split(':')[1] for n in self.framing),
                'entry_point_monitor_calls': self.monitor.calls, 'nested_calls_observed': self.monitor.nested_calls}
