# -*- coding: utf-8 -*-
"""C19 - parsing work is bounded linearly by the input size.

Step-count monitor (sys.monitoring LINE events restricted to the library's code objects), stack-depth
monitor and tracemalloc peak, on (1) size-parameterised shapes measured at n, 2n, 4n, 8n and (2) an
absolute per-call budget A + B*len(input) enforced from inside the monitored execution on fuzzed inputs.
"""
import random
import tracemalloc

from vmon import core, inventory, mutate, pipeline, stepmon

BUDGET_A = 150000          # >= 10x the largest constant observed on the unchanged tree (~8.3e3 events for 0..16 bytes)
BUDGET_B = 3000            # >= 10x the steepest observed slope (~310 events per byte)
MAX_DEPTH = 64             # deepest observed: 26
GROWTH_LIMIT = 2.5
QUADRATIC_DOMINANCE = 2.0  # fitted quadratic term at 64 KiB, as a multiple of the fitted linear work of the same shape there
BASE = {'quick': 128, 'thorough': 256}
DOUBLINGS = {'quick': 3, 'thorough': 5}
FUZZ = {'quick': 10, 'thorough': 400}
AMPLIFIERS = ('repeat-whole', 'repeat-segment', 'long-token', 'separator-storm', 'no-separator', 'ff-tail',
              'zero-tail', 'nested-brackets', 'crlf-lines')


def _spf(term):
    return lambda size: b'v=spf1 ' + b' '.join([term] * max(1, size // (len(term) + 1))) + b' -all'


def _csp_sources(size):
    return b"default-src 'self' " + b' '.join([b'https://h.example'] * max(1, size // 18))


def _csp_directives(size):
    names = [b'img-src', b'font-src', b'media-src', b'frame-src', b'style-src', b'script-src', b'object-src', b'connect-src']
    return b'; '.join(names[i % len(names)] + b" 'self'" for i in range(max(1, size // 17)))


def _tagged(head, item):
    return lambda size: head + b'; '.join([item] * max(1, size // (len(item) + 2)))


def _kexinit(size):
    names = b','.join([b'curve25519-sha256'] * max(1, size // 18))
    lists = [names] + [b'x'] * 9
    return b'\x14' + b'\x00' * 16 + b''.join(len(entry).to_bytes(4, 'big') + entry for entry in lists) + b'\x00' + b'\x00' * 4


def _kexinit_languages(size):
    """One language tag with very many subtags in the (normally empty) language name-lists."""
    tag = b'en' + b'-x' * max(1, size // 2)
    lists = [b'curve25519-sha256'] + [b'x'] * 7 + [tag, tag]
    return b'\x14' + b'\x00' * 16 + b''.join(len(entry).to_bytes(4, 'big') + entry for entry in lists) + b'\x00' + b'\x00' * 4


def _mx_labels(size):
    """MX RDATA whose exchange name is made of very many one-byte labels."""
    return b'\x00\x0a' + b'\x01a' * max(1, size // 2) + b'\x00'


def _empty_elements(head, tail):
    """A list value whose elements are a long run of blank-separated empty ones before a real one."""
    return lambda size: head + b'; ' * max(1, size // 2) + tail


def _txt_strings(size):
    return b''.join(b'\xff' + b'a' * 255 for _ in range(max(1, size // 256)))


def _header_block(line):
    return lambda size: line * max(1, size // len(line)) + b'\r\n'


def _client_hello(pattern):
    """Client hello of about `size` bytes: cipher suite list (2..65534 bytes) filled after `pattern`, or many extensions."""
    from vmon.ref import tls as ref  # pylint: disable=import-outside-toplevel

    def make(size):
        count = max(2, min(32767, size // 2))
        ordinary = [0xc02b, 0xc02f, 0x009e, 0x1301, 0xcca9]
        extensions = []
        if pattern == 'scsv-tail':
            suites = [ordinary[i % 5] for i in range(count // 2)] + [0x00ff] * (count - count // 2)
        elif pattern == 'scsv-alternating':
            suites = [(0x5600, ordinary[i % 5], 0x00ff, ordinary[(i + 1) % 5])[i % 4] for i in range(count)]
        elif pattern == 'grease-suites':
            suites = [(0x0a0a + 0x1010 * (i % 16)) for i in range(count)]
        elif pattern == 'groups-and-shares':
            # two lists that refer to each other and grow together: every key share names a group of the supported_groups
            # extension, the shares in the opposite order
            suites = ordinary
            groups = [0x4000 + i for i in range(max(1, min(9000, size // 7)))]
            extensions = [ref.extension(10, ref.ext_supported_groups(groups)),
                          ref.extension(51, ref.ext_key_share_client([(group, b'\x01') for group in reversed(groups)]))]
        else:
            suites = ordinary
            extensions = [ref.extension(0x4000 + i, b'') for i in range(max(1, min(16000, size // 4)))]     # pairwise different, unassigned
        return ref.client_hello(0x0303, b'\x11' * 32, b'', suites, [0], extensions)
    return make


def _ssh_certificate(part):
    """An ssh-ed25519 v01 certificate of about `size` bytes whose `part` (extensions, critical options, principals) holds
    very many pairwise different entries - what a CA that stamps vendor options produces."""
    from vmon.ref import ssh as ref  # pylint: disable=import-outside-toplevel

    def make(size):
        count = max(1, size // 6)      # entries are ~30 bytes each: as many of them as the text shapes have terms
        names = ['opt%06d@example.com' % number for number in range(count)]        # ascending, pairwise different
        options = [ref.option(name, b'') for name in names]
        principals = ['host%06d.example.com' % number for number in range(count)] if part == 'principals' else ['host.example.com']
        signer = ref.key_blob('ssh-ed25519', ref.key_fields_ed25519(b'\x07' * 32))
        return ref.certificate_v01(
            'ssh-ed25519-cert-v01@openssh.com', b'\x01' * 32, ref.key_fields_ed25519(b'\x05' * 32), 1, 2, 'key-id', principals, 0,
            2 ** 32, options if part == 'critical-options' else [], options if part == 'extensions' else [], b'', signer,
            ref.signature_blob('ssh-ed25519', b'\x09' * 64))
    return make


SPF = 'cryptoparser.dnsrec.txt:DnsRecordTxtValueSpf'
EXPLICIT_SHAPES = [(SPF, 'spf-' + term.decode('ascii').split(':')[0].split('=')[0] + ('-cidr' if b'/' in term else ''), _spf(term))
                   for term in (b'a:example.com', b'mx:example.com', b'a', b'mx', b'a:example.com/24', b'mx/24//64',
                                b'include:x.example', b'ip4:1.2.3.4', b'ip6:::1', b'exists:%{i}.x', b'ptr:example.com',
                                b'redirect=x.example', b'unknown=val', b'+all')] + [
    ('cryptoparser.httpx.header:HttpHeaderFieldValueContentSecurityPolicy', 'csp-sources', _csp_sources),
    ('cryptoparser.httpx.header:HttpHeaderFieldValueContentSecurityPolicy', 'csp-directives', _csp_directives),
    ('cryptoparser.dnsrec.txt:DnsRecordTxtValueDmarc', 'dmarc-unknown-tags', _tagged(b'v=DMARC1; p=none; ', b'x=y')),
    ('cryptoparser.dnsrec.txt:DnsRecordTxtValueMtaSts', 'mta-sts-unknown-fields', _tagged(b'v=STSv1; id=1; ', b'x=y')),
    ('cryptoparser.httpx.header:HttpHeaderFieldValueSTS', 'hsts-unknown-directives', _tagged(b'max-age=1; ', b'x=y')),
    ('cryptoparser.httpx.header:HttpHeaderFieldValueCacheControlResponse', 'cache-control-extensions',
     lambda size: b'no-cache, ' + b', '.join([b'x=y'] * max(1, size // 5))),
    ('cryptoparser.httpx.header:HttpHeaderFieldValueSetCookie', 'set-cookie-attributes', _tagged(b'n=v; ', b'x=y')),
    ('cryptoparser.httpx.header:HttpHeaderFieldValueSTS', 'hsts-empty-directives', _empty_elements(b'max-age=1', b'preload')),
    ('cryptoparser.httpx.header:HttpHeaderFieldValueSetCookie', 'set-cookie-empty-attributes', _empty_elements(b'n=v', b'Secure')),
    ('cryptoparser.dnsrec.txt:DnsRecordTxtValueDmarc', 'dmarc-empty-tags', _empty_elements(b'v=DMARC1; p=none', b'pct=5')),
    ('cryptoparser.httpx.header:HttpHeaderFieldValueContentSecurityPolicy', 'csp-empty-directives',
     _empty_elements(b"default-src 'self'", b"img-src *")),
    ('cryptoparser.httpx.header:HttpHeaderFieldValueCacheControlResponse', 'cache-control-empty-elements',
     lambda size: b'no-cache' + b', ' * max(1, size // 2) + b'no-store'),
    ('cryptoparser.ssh.subprotocol:SshKeyExchangeInit', 'kexinit-name-list', _kexinit),
    ('cryptoparser.tls.subprotocol:TlsHandshakeClientHello', 'hello-scsv-tail', _client_hello('scsv-tail')),
    ('cryptoparser.tls.subprotocol:TlsHandshakeClientHello', 'hello-scsv-alternating', _client_hello('scsv-alternating')),
    ('cryptoparser.tls.subprotocol:TlsHandshakeClientHello', 'hello-grease-suites', _client_hello('grease-suites')),
    ('cryptoparser.tls.subprotocol:TlsHandshakeClientHello', 'hello-unknown-extensions', _client_hello('extensions')),
    ('cryptoparser.tls.subprotocol:TlsHandshakeClientHello', 'hello-groups-and-key-shares', _client_hello('groups-and-shares')),
    ('cryptoparser.dnsrec.record:DnsRecordTxt', 'txt-strings', _txt_strings),
    ('cryptoparser.dnsrec.record:DnsRecordMx', 'mx-many-labels', _mx_labels),
    ('cryptoparser.ssh.subprotocol:SshKeyExchangeInit', 'kexinit-language-subtags', _kexinit_languages),
    ('cryptoparser.ssh.key:SshHostCertificateV01EDDSA', 'ssh-cert-extensions', _ssh_certificate('extensions')),
    ('cryptoparser.ssh.key:SshHostCertificateV01EDDSA', 'ssh-cert-critical-options', _ssh_certificate('critical-options')),
    ('cryptoparser.ssh.key:SshHostCertificateV01EDDSA', 'ssh-cert-principals', _ssh_certificate('principals')),
    ('cryptoparser.httpx.header:HttpHeaderFields', 'unknown-header-lines', _header_block(b'X-Unknown-Header: value\r\n')),
    ('cryptoparser.httpx.header:HttpHeaderFields', 'known-header-lines', _header_block(b'Strict-Transport-Security: max-age=1\r\n')),
    ('cryptoparser.httpx.header:HttpHeaderFields', 'cookie-header-lines', _header_block(b'Set-Cookie: a=b; Path=/; Secure\r\n')),
]


def amplify(seed, kind, size):  # pylint: disable=too-many-return-statements,too-many-branches
    """A shape of about `size` bytes derived from a valid encoding."""
    texty = mutate.is_texty(seed)
    if kind == 'repeat-whole':
        if not seed:
            return None
        return (seed * (size // len(seed) + 1))[:max(size, len(seed))]
    if kind == 'repeat-segment':
        if not texty:
            return None
        for separator in (b'\r\n', b';', b',', b' '):
            at = seed.find(separator)
            if 0 <= at < len(seed) - len(separator):
                segment = seed[at:] if len(seed) - at < 200 else seed[at:at + 200]
                body = segment * (size // max(1, len(segment)) + 1)
                return seed[:at] + body[:size] + (b'' if separator != b'\r\n' else b'\r\n\r\n')
        return None
    if kind == 'long-token':
        if not texty or not seed:
            return None
        position = len(seed) // 2
        return seed[:position] + b'a' * size + seed[position:]
    if kind == 'separator-storm':
        if not texty:
            return None
        for separator in (b';', b',', b' ', b'=', b':'):
            at = seed.find(separator)
            if at >= 0:
                return seed[:at] + separator * size + seed[at:]
        return None
    if kind == 'no-separator':
        if not texty:
            return None
        return b'a' * size
    if kind == 'ff-tail':
        return seed + b'\xff' * size
    if kind == 'zero-tail':
        return seed + b'\x00' * size
    if kind == 'nested-brackets':
        if not seed.lstrip().startswith((b'{', b'[')):
            return None
        return b'[' * size + b']' * size
    if kind == 'crlf-lines':
        if b'\r\n' not in seed:
            return None
        return b'X-%d: v\r\n' % 7 * (size // 8) + b'\r\n'
    return None


class Check(core.CheckBase):
    ID = 'C19'
    TECHNIQUE = 'runtime step-count / stack-depth monitor (sys.monitoring LINE events) with an in-execution step budget, plus tracemalloc peak'
    RULE = ('growth: one case = (class, seed, amplifier) measured at n, 2n, 4n, 8n (thorough: two more doublings) with '
            'accepted and rejected outcomes alike; budget: one case = one fuzzed input of a class, parse run under the '
            'budget A + B*len; distinct = (class, shape or input); non-trivial = the parse executed >= 50 library line '
            'events, i.e. went beyond an immediate header rejection')
    SHARDS = {'quick': 8, 'thorough': 16}
    ASSUMPTIONS = ('interpreter steps are LINE events of code under <repo>/cryptoparser; C-level work (slice copies, bytes(), '
                   'third-party parsers such as asn1crypto/dateutil/json) is invisible to the step counter and only partly '
                   'visible to the allocation monitor - stated limitation',
                   'n log n growth (ratio about 2.1-2.2 per doubling) is deliberately not flagged; the threshold is 2.5',
                   'budget constants A=%d, B=%d per byte are >= 10x the worst class of the unchanged tree' % (BUDGET_A, BUDGET_B))

    def setup(self):
        self.allowed = pipeline.parse_errors()
        self.corpus = pipeline.corpus_by_class()
        self.all_seeds = [data for seeds in self.corpus.values() for data in seeds]
        self.classes = inventory.parsable_classes(concrete_only=False)
        self.monitor = stepmon.StepMonitor()
        if not self.monitor.available:
            self.inconclusive.append('sys.monitoring is not available in this interpreter')
        else:
            self.monitor.install()

    def cases(self):
        index = 0
        for name in sorted(self.corpus):
            if name not in self.classes:
                continue
            seeds = self.corpus[name]
            picks = list(range(len(seeds)))
            self.plan_rng.shuffle(picks)
            chosen = picks[:1] if self.tier == 'quick' else picks[:3]
            for seed_index in chosen:
                for amplifier in AMPLIFIERS:
                    index += 1
                    if self.tier == 'quick' and self.plan_rng.random() < 0.45:
                        continue
                    if self.mine(index):
                        yield {'kind': 'growth', 'cls': name, 'seed_index': seed_index, 'amplifier': amplifier}
            index += 1
            if self.mine(index):
                yield {'kind': 'fuzz', 'cls': name}
        for number in range(len(EXPLICIT_SHAPES)):
            index += 1
            if self.mine(index):
                yield {'kind': 'growth-explicit', 'number': number}
        for shape in ('vector-items', ):
            for name in sorted(inventory.vector_classes()):
                index += 1
                if self.mine(index):
                    yield {'kind': 'growth-vector', 'cls': name, 'shape': shape}

    def judge(self, case):
        if not self.monitor.available:
            return []
        return getattr(self, 'judge_' + case['kind'].replace('-', '_'))(case)

    # ------------------------------------------------------------------ growth
    def measure_series(self, cls, make, case, label):
        """make(size) -> bytes or None. Returns violations."""
        found = []
        sizes = [BASE[self.tier] * 2 ** k for k in range(DOUBLINGS[self.tier] + 1)]
        series = []
        for size in sizes:
            data = make(size)
            if data is None:
                return found
            budget = BUDGET_A + BUDGET_B * len(data)
            outcome, steps, depth = self.monitor.measure(cls.parse_immutable, data, budget=budget)
            self.stats['measured_parses'] += 1
            series.append((len(data), steps, depth, outcome))
            if outcome[0] == 'budget':
                found.append(self.violation(
                    'step-budget|%s' % label,
                    '%s: %s shape of %d bytes used more than %d interpreter steps (A + B*len)' % (
                        cls.__name__, label, len(data), budget), dict(case, size=size)))
                return found
            if outcome[0] == 'raised' and isinstance(outcome[1], RecursionError):
                found.append(self.violation('recursion|%s' % label,
                                            '%s: %s shape of %d bytes hit the recursion limit' % (cls.__name__, label, len(data)),
                                            dict(case, size=size)))
                return found
            if depth > MAX_DEPTH:
                found.append(self.violation('stack-depth|%s' % label,
                                            '%s: %s shape of %d bytes reached library stack depth %d' % (
                                                cls.__name__, label, len(data), depth), dict(case, size=size)))
                return found
        nontrivial = max(steps for _, steps, _, _ in series) >= 50
        self.observe((case['cls'], label, case.get('seed_index')), nontrivial,
                     {'cls': case['cls'], 'shape': label, 'series': [(length, steps, depth, outcome[0] if outcome[0] != 'raised'
                                                                       else type(outcome[1]).__name__)
                                                                      for length, steps, depth, outcome in series]})
        self.notes.setdefault('classes', set()).add(case['cls'])
        # growth per doubling at the two largest steps (byte lengths, not nominal sizes, give the x axis)
        for (len_a, steps_a, _, _), (len_b, steps_b, _, _) in zip(series[-3:-1], series[-2:]):
            if steps_a < 2000 or len_b <= len_a:
                continue    # constant-dominated: nothing to fit
            self.stats['growth_ratios_judged'] += 1
            ratio = steps_b / float(steps_a)
            expected = len_b / float(len_a)
            if ratio > GROWTH_LIMIT * expected / 2.0:
                found.append(self.violation(
                    'super-linear|%s' % label,
                    '%s: %s shape: %d bytes -> %d steps, %d bytes -> %d steps (x%.2f for x%.2f input)' % (
                        cls.__name__, label, len_a, steps_a, len_b, steps_b, ratio, expected), case))
                break
        # curvature: step counts are deterministic, so a small quadratic term hidden under a large linear constant at these
        # sizes can still be resolved. c is estimated from two overlapping triples; when both agree on a positive c, the fitted
        # a + b*L + c*L^2 is extrapolated to a 64 KiB input (the largest length-prefixed field) and must stay inside the budget
        if not found and len(series) >= 4 and all(outcome[0] != 'budget' for _, _, _, outcome in series):
            points = [(float(length), float(steps)) for length, steps, _, _ in series[-4:]]
            curvatures = []
            for (x0, y0), (x1, y1), (x2, y2) in (points[0:3], points[1:4]):
                if not x0 < x1 < x2:
                    curvatures = []
                    break
                slope_a, slope_b = (y1 - y0) / (x1 - x0), (y2 - y1) / (x2 - x1)
                curvatures.append((slope_b - slope_a) / ((x2 - x0) / 2.0) / 2.0)
            if len(curvatures) == 2 and min(curvatures) > 0 and max(curvatures) < 4 * min(curvatures):
                self.stats['curvatures_judged'] += 1
                coefficient = min(curvatures)
                (x2, y2), (x3, y3) = points[2], points[3]
                slope = (y3 - y2) / (x3 - x2)
                far = 65536.0
                predicted = y3 + slope * (far - x3) + coefficient * (far - x3) ** 2
                share_now = coefficient * x3 ** 2 / max(1.0, y3)
                linear_far = y3 + slope * (far - x3)
                dominance = coefficient * (far - x3) ** 2 / max(1.0, linear_far)
                worst = self.notes.setdefault('max_quadratic_dominance', [0.0, None])
                if share_now >= 0.05 and dominance > worst[0]:
                    worst[0], worst[1] = round(dominance, 3), label
                # over the global budget at 64 KiB, or - for a class whose own constant is small - a quadratic term that
                # would be several times the class's own linear work there
                if share_now >= 0.05 and (predicted > BUDGET_A + BUDGET_B * far or dominance > QUADRATIC_DOMINANCE):
                    found.append(self.violation(
                        'super-linear|%s' % label,
                        '%s: %s shape: steps %r at %r bytes bend upwards (quadratic term %.3g*L^2, %.0f%% of the work at %d bytes); '
                        'extrapolated to 64 KiB that is %.3g steps, over the linear budget' % (
                            cls.__name__, label, [int(y) for _, y in points], [int(x) for x, _ in points], coefficient,
                            100 * share_now, x3, predicted), case))
        depths = [depth for _, _, depth, _ in series]
        if depths[-1] > depths[0] + 4:
            found.append(self.violation('depth-grows|%s' % label,
                                        '%s: %s shape: library stack depth grows with the input (%r)' % (
                                            cls.__name__, label, depths), case))
        # allocation: peak for the two largest sizes
        if not found and self.tier == 'thorough' and series[-1][1] >= 2000:
            peaks = []
            for size in sizes[-2:]:
                data = make(size)
                tracemalloc.start()
                try:
                    try:
                        cls.parse_immutable(data)
                    except Exception:  # pylint: disable=broad-except
                        pass
                    peaks.append((len(data), tracemalloc.get_traced_memory()[1]))
                finally:
                    tracemalloc.stop()
            self.stats['allocation_ratios_judged'] += 1
            (len_a, peak_a), (len_b, peak_b) = peaks
            if peak_a > 200000 and peak_b > 3.0 * peak_a * (len_b / float(len_a)) / 2.0:
                found.append(self.violation('allocation-super-linear|%s' % label,
                                            '%s: %s shape: peak allocation %d -> %d bytes for input %d -> %d' % (
                                                cls.__name__, label, peak_a, peak_b, len_a, len_b), case))
        return found

    def judge_growth(self, case):
        cls = self.classes[case['cls']]
        seed = self.corpus[case['cls']][case['seed_index']]
        return self.measure_series(cls, lambda size: amplify(seed, case['amplifier'], size), case, case['amplifier'])

    def judge_growth_explicit(self, case):
        cls_name, label, make = EXPLICIT_SHAPES[case['number']]
        cls = self.classes.get(cls_name) or inventory.resolve(cls_name)
        self.stats['explicit_shapes_measured'] += 1
        return self.measure_series(cls, make, dict(case, cls=cls_name), 'explicit:' + label)

    def judge_growth_vector(self, case):
        """n copies of a valid item inside the vector's own length prefix."""
        vectors = inventory.vector_classes()
        cls = vectors[case['cls']]
        param = cls.get_param()
        if type(param).__name__ == 'ListParamParsable':
            return []
        body_unit = None
        for data in self.corpus.get(case['cls'], []):
            width = param.item_num_size
            if len(data) > width and int.from_bytes(data[:width], 'big') == len(data) - width:
                body_unit = data[width:]
                break
        if not body_unit:
            return []

        def make(size):
            count = max(1, size // len(body_unit))
            body = body_unit * count
            top = min(param.max_byte_num, 2 ** (8 * param.item_num_size) - 1)
            if len(body) > top:
                body = body_unit * max(1, top // len(body_unit))
            return len(body).to_bytes(param.item_num_size, 'big') + body
        return self.measure_series(cls, make, case, 'vector-items')

    # ------------------------------------------------------------------ absolute budget on fuzzed inputs
    def judge_fuzz(self, case):
        name = case['cls']
        cls = self.classes[name]
        rng = random.Random('C19/%s/%s' % (self.seed, name))
        seeds = self.corpus[name]
        found = []
        inputs = []
        if 'hex' in case:
            inputs = [(('replay', ), bytes.fromhex(case['hex']))]
        else:
            for _ in range(FUZZ[self.tier]):
                data = rng.choice(seeds)
                stream = list(mutate.length_corruptions(data, rng, 6)) + list(mutate.splices(data, seeds, rng, 2)) + \
                    list(mutate.bit_flips(data, rng, 2))
                if stream:
                    inputs.append(rng.choice(stream))
            inputs.append((('seed', ), seeds[0]))
            # maximal declared counts / lengths with little data behind them: every 1..4 byte window of the first 40
            # bytes of a valid encoding set to all-ones (also behind a zero byte: escaped 3-byte length forms), the
            # input cut shortly after the window
            data = seeds[rng.randrange(len(seeds))]
            for offset in range(0, min(len(data), 40)):
                for width in (1, 2, 3, 4):
                    if rng.random() > (1.0 if self.tier == 'thorough' else 0.35):
                        continue
                    for prefix in (b'', b'\x00'):
                        tail = data[offset + len(prefix) + width:offset + len(prefix) + width + rng.choice((0, 3, 8, 24))]
                        inputs.append((('declared-max', offset, width), data[:offset] + prefix + b'\xff' * width + tail))
        for recipe, data in inputs:
            budget = BUDGET_A + BUDGET_B * len(data)
            outcome, steps, depth = self.monitor.measure(cls.parse_immutable, data, budget=budget)
            self.stats['budgeted_parses'] += 1
            self.observe((name, data), steps >= 50, {'cls': name, 'len': len(data), 'steps': steps, 'depth': depth,
                                                      'recipe': str(recipe[0])})
            single = {'kind': 'fuzz', 'cls': name, 'hex': data.hex()}
            if outcome[0] == 'budget':
                found.append(self.violation('step-budget|fuzz|%s' % cls.__name__,
                                            '%s: %d-byte input exceeded the budget of %d steps' % (cls.__name__, len(data), budget),
                                            single))
            elif outcome[0] == 'raised' and isinstance(outcome[1], RecursionError):
                found.append(self.violation('recursion|fuzz|%s' % cls.__name__, '%s: RecursionError on a %d-byte input' % (
                    cls.__name__, len(data)), single))
            elif depth > MAX_DEPTH:
                found.append(self.violation('stack-depth|fuzz|%s' % cls.__name__, '%s: library stack depth %d' % (cls.__name__, depth),
                                            single))
            self.notes['max_slope'] = max(self.notes.get('max_slope', 0), int(steps / (len(data) + 16.0)))
        return found

    def floors(self):
        return {'measured_parses': 1500, 'growth_ratios_judged': 150, 'budgeted_parses': 2500, 'classes': 250}

    def finish(self):
        return {'classes': sorted(self.notes.get('classes', set())), 'budget': {'A': BUDGET_A, 'B': BUDGET_B},
                'max_steps_per_byte_observed_per_shard': [self.notes.get('max_slope', 0)],
                'growth_limit_per_doubling': GROWTH_LIMIT,
                'max_quadratic_dominance_observed_per_shard': [self.notes.get('max_quadratic_dominance', [0.0, None])]}
