# -*- coding: utf-8 -*-
"""C12 - length-prefixed vectors stay within bounds through any edit sequence.

History monitor (vector vs. a model list after every operation) + invariant at a hook (icontract class
invariant on the live _items/_items_size state of ArrayBase, recording mode) + observable consequence
(compose prefix == body length, fits the prefix width, parse(compose) round trip).
"""
import copy
import enum
import random
import weakref

import attr

from vmon import bank, core, inventory, structural

SEQUENCES = {'quick': 24, 'thorough': 400}
OPS = {'quick': 40, 'thorough': 80}


class Recorder(object):  # pylint: disable=too-few-public-methods
    """Sink of the recording-mode invariant."""
    events = []
    evaluations = 0
    cache = {}


_SIZE_MEMO = {}
_CONSTANT_ITEM_SIZE = ('VectorParamNumeric', 'OpaqueParam', 'VectorParamEnumCodeNumeric')


def item_sizes(param, items):
    """Sum of the wire sizes; per-object memo (pool items are never mutated by the harness)."""
    if type(param).__name__ in _CONSTANT_ITEM_SIZE:
        # get_item_size() of these parameter classes ignores the item
        return len(items) * param.get_item_size(items[0]) if items else 0
    total = 0
    for item in items:
        key = (id(param.__class__), id(item)) if hasattr(item, '__dict__') else None
        if key is None:
            total += param.get_item_size(item)
            continue
        size = _SIZE_MEMO.get(key)
        if size is None or size[1]() is not item:
            # weak references: the memo must not keep dropped items alive (object identities are meant to be reused)
            try:
                size = (measured(param, item), weakref.ref(item))
            except TypeError:
                total += measured(param, item)
                continue
            if len(_SIZE_MEMO) > 200000:
                _SIZE_MEMO.clear()
            _SIZE_MEMO[key] = size
        total += size[0]
    return total


def measured(param, item):
    """Wire size of one item, measured on the item itself where it can compose (independent of whatever the vector parameter
    remembers about it); the parameter's own rule otherwise (names, code points)."""
    if type(param).__name__ in ('VectorParamParsable', 'ListParamParsable') and hasattr(item, 'compose'):
        return len(bytes(item.compose()))
    return param.get_item_size(item)


def forget(item):
    """The harness changed `item` in place: its remembered size is void."""
    for key in [key for key in _SIZE_MEMO if key[1] == id(item)]:
        del _SIZE_MEMO[key]


def grow(item):
    """Make a (private copy of a) parsable item a little larger in place; True when its encoded size changed and it still
    round-trips on its own."""
    if not attr.has(type(item)) or not hasattr(item, 'compose'):
        return False
    try:
        before = len(bytes(item.compose()))
    except Exception:  # pylint: disable=broad-except
        return False
    for field in attr.fields(type(item)):
        value = getattr(item, field.name, None)
        try:
            if isinstance(value, bytearray):
                value += b'\x00'
            elif hasattr(value, '_items_size') and hasattr(value, 'append') and len(value):
                value.append(value[0])
            else:
                continue
            composed = bytes(item.compose())
            if len(composed) != before and structural.equal(type(item).parse_exact_size(composed), item):
                return True
        except Exception:  # pylint: disable=broad-except
            return False
    return False


def size_matches_items(self):
    """icontract invariant on ArrayBase (recording mode: never raises into the observed execution)."""
    Recorder.evaluations += 1
    try:
        items = self._items  # pylint: disable=protected-access
        if not isinstance(items, list) or self.param is None:
            return True     # still inside __attrs_post_init__
        key = (len(items), self._items_size)  # pylint: disable=protected-access
        if Recorder.cache.get(id(self)) == key:
            return True     # neither the item count nor the size changed since the last full walk of this object
        if len(items) > 512 and Recorder.evaluations % 61:
            return True     # large vectors: sampled, the O(n) walk on every call would make bulk edits quadratic
        Recorder.cache[id(self)] = key
        expected = item_sizes(self.param, items)
        actual = self._items_size  # pylint: disable=protected-access
        if expected != actual:
            Recorder.events.append(('size-drift', type(self).__name__, expected, actual, len(items)))
        elif not self.param.min_byte_num <= actual <= self.param.max_byte_num:
            Recorder.events.append(('out-of-bounds-state', type(self).__name__, actual,
                                    self.param.min_byte_num, self.param.max_byte_num))
    except Exception:  # pylint: disable=broad-except
        pass
    return True


class Check(core.CheckBase):  # pylint: disable=too-many-instance-attributes
    ID = 'C12'
    TECHNIQUE = 'runtime history monitor vs. model list + icontract class invariant on ArrayBase + compose/parse consequence'
    RULE = ('one case = one random edit sequence (append, insert, extend, +=, pop, remove, del index/slice, item and '
            'slice assignment, reverse, clear; integer, negative and slice positions; biased to approach and touch '
            'both size bounds) applied to a vector of one vector class and to a model list; the oracle runs after '
            'every operation. distinct = (class, sequence id); non-trivial = at least one operation changed the vector '
            'and at least one was refused or touched a bound')
    SHARDS = {'quick': 8, 'thorough': 16}
    ASSUMPTIONS = ('item sizes are taken from the library\'s own VectorParam.get_item_size and cross-checked through the '
                   'composed encoding (prefix == body length)',
                   'byte ceilings >= 2^24 are approached only up to ~2^17 bytes; the ceiling itself is not touched there')

    def setup(self):
        from cryptoparser.common.base import ArrayBase  # pylint: disable=import-outside-toplevel
        from cryptoparser.common.exception import NotEnoughData, TooMuchData  # pylint: disable=import-outside-toplevel
        self.ArrayBase = ArrayBase  # pylint: disable=invalid-name
        self.length_errors = (NotEnoughData, TooMuchData)
        self.vectors = inventory.vector_classes()
        self.bank = bank.objects_by_class()
        self.icontract = 'shim (explicit check after every operation only)'
        if not getattr(ArrayBase, '_verif_invariant', False):
            try:
                import icontract  # pylint: disable=import-outside-toplevel

                class InvariantBroken(Exception):
                    pass
                icontract.invariant(size_matches_items, error=InvariantBroken)(ArrayBase)
                ArrayBase._verif_invariant = True  # pylint: disable=protected-access
                self.icontract = 'real (icontract.invariant on ArrayBase, recording mode)'
            except Exception as e:  # pylint: disable=broad-except
                self.icontract = 'shim: icontract unavailable (%r)' % e
        else:
            self.icontract = 'real (icontract.invariant on ArrayBase, recording mode)'
        self.pools = {}

    # ------------------------------------------------------------------ item pools
    def pool(self, name):  # pylint: disable=too-many-branches,too-many-statements
        if name in self.pools:
            return self.pools[name]
        cls = self.vectors[name]
        param = cls.get_param()
        kind = type(param).__name__
        items = []
        starts = []
        for instance, _, _ in self.bank.get(name, [])[:30]:
            starts.append(list(instance))
            items.extend(list(instance))
        item_class = getattr(param, 'item_class', None)
        fallback = getattr(param, 'fallback_class', None)
        if kind in ('OpaqueParam', ):
            items += list(range(256))
        elif kind == 'VectorParamNumeric':
            numeric = param.numeric_class
            if isinstance(numeric, type) and issubclass(numeric, enum.Enum):
                items += list(numeric)
            else:
                top = 2 ** (8 * param.item_size)
                items += [0, 1, top - 1, top // 2] + list(range(min(top, 64)))
        elif kind == 'VectorParamEnumCodeNumeric':
            members = list(item_class.get_enum_class())
            items += members[:200]
            if isinstance(fallback, type):
                known = {m.value.code for m in members}
                size = item_class.get_byte_num()
                for code in (0x0a0a, 0x1a1a, 0xfafa, 0xfffe, 0x7f7f, 0xee, 0x0b):
                    code &= 2 ** (8 * size) - 1
                    if code not in known:
                        try:
                            items.append(fallback(code))
                        except Exception:  # pylint: disable=broad-except
                            pass
        elif kind == 'VectorParamEnumCodeString':
            items += list(item_class.get_enum_class())
        elif kind in ('VectorParamString', 'VectorParamSshLanguage'):
            if isinstance(item_class, type) and issubclass(item_class, enum.Enum):
                items += list(item_class)[:80]
                if fallback is str:
                    items += ['unknown-name@verif', 'x', 'another.unknown-1']
        item_bank = []
        if isinstance(item_class, type):
            for candidate in (item_class, fallback):
                if isinstance(candidate, type):
                    item_bank += [obj for obj, _, _ in self.bank.get(inventory.class_name(candidate), [])[:40]]
            # variant wrappers: items are the variants' concrete classes
            if hasattr(item_class, '_get_variant_types'):
                try:
                    for variant in item_class._get_variant_types():  # pylint: disable=protected-access
                        item_bank += [obj for obj, _, _ in self.bank.get(inventory.class_name(variant), [])[:6]]
                except Exception:  # pylint: disable=broad-except
                    pass
        items += item_bank
        fat = self.fat_items(name, param)
        usable = []
        judged = {}
        for item in items + fat:
            try:
                param.get_item_size(item)
            except Exception:  # pylint: disable=broad-except
                continue
            if hasattr(item, '__dict__') and kind not in ('ListParamParsable', ):
                # pool items must round-trip on their own inside this vector class; an item that does not is C01's
                # business (e.g. an "unparsed" extension built by the repo's tests around a type that has a parser)
                key = id(item)
                if key not in judged:
                    single = [item]
                    while item_sizes(param, single) < param.min_byte_num:
                        single.append(item)
                    try:
                        holder = cls(single)
                    except self.length_errors:
                        holder = None       # too large for this vector on its own: cannot be pre-judged, keep
                    except Exception:  # pylint: disable=broad-except
                        holder = False
                    if holder is None:
                        judged[key] = True
                    elif holder is False:
                        judged[key] = False
                    else:
                        try:
                            again = cls.parse_exact_size(bytes(holder.compose()))
                            judged[key] = structural.deep_state(list(again)) == structural.deep_state(single)
                        except Exception:  # pylint: disable=broad-except
                            judged[key] = False
                if not judged[key]:
                    self.stats['pool_items_dropped_not_roundtripping'] += 1
                    continue
            usable.append(item)
        usable_ids = set(id(item) for item in usable if hasattr(item, '__dict__'))
        starts = [start for start in starts
                  if all(id(item) in usable_ids or not hasattr(item, '__dict__') for item in start)]
        self.pools[name] = (usable, starts, fat)
        return self.pools[name]

    def fat_items(self, name, param):
        """A few large items so that ceilings up to 2^16 are touched with few operations."""
        import importlib  # pylint: disable=import-outside-toplevel
        fat = []
        if param.max_byte_num > 2 ** 17 or param.max_byte_num < 2 ** 10:
            return fat
        item_class = getattr(param, 'item_class', None)
        target = getattr(item_class, '__name__', '')
        try:
            ext = importlib.import_module('cryptoparser.tls.extension')
            sub = importlib.import_module('cryptoparser.tls.subprotocol')
            grease = importlib.import_module('cryptoparser.tls.grease')
            for size in (20000, 30000, 15000, 5000):
                if target in ('TlsExtensionVariantClient', 'TlsExtensionVariantServer'):
                    fat.append(ext.TlsExtensionUnparsed(grease.TlsInvalidTypeTwoByte(0x0a0a), bytearray(size)))
                elif target == 'TlsDistinguishedName':
                    fat.append(sub.TlsDistinguishedName([1] * size))
                elif target == 'TlsCertificateStatusRequestResponderId':
                    fat.append(ext.TlsCertificateStatusRequestResponderId([2] * size))
                elif target == 'TlsKeyShareEntry':
                    fat.append(ext.TlsKeyShareEntryInvalidType(grease.TlsInvalidTypeTwoByte(0x1a1a), bytearray(size)))
        except Exception:  # pylint: disable=broad-except
            pass
        del name
        return fat

    # ------------------------------------------------------------------ workload
    def cases(self):
        index = 0
        for name in sorted(self.vectors):
            for number in range(SEQUENCES[self.tier]):
                index += 1
                if self.mine(index):
                    yield {'kind': 'sequence', 'cls': name, 'rng': 'C12/%s/%s/%d' % (self.seed, name, number),
                           'length': OPS[self.tier]}

    # ------------------------------------------------------------------ oracle
    def judge(self, case):  # pylint: disable=too-many-locals,too-many-branches,too-many-statements
        name = case['cls']
        cls = self.vectors[name]
        param = cls.get_param()
        kind = type(param).__name__
        items, starts, fat = self.pool(name)
        rng = random.Random(case['rng'])
        found = []
        if not items and param.min_byte_num > 0:
            self.stats['classes_without_items'] += 1
            return found

        def violation(rule, op, what):
            found.append(self.violation('%s|%s|%s' % (rule, op, kind), '%s: %s' % (cls.__name__, what),
                                        dict(case, stop_after=step)))

        # starting vector
        step = -1
        start = list(rng.choice(starts)) if starts and rng.random() < 0.6 else []
        while item_sizes(param, start) < param.min_byte_num and items:
            start.append(rng.choice(items))
        try:
            Recorder.events = []
            Recorder.cache = {}
            source = list(start)        # the caller's own list: the vector and a twin built from it must not hold on to it
            vector = cls(source)
            twin = cls(source)
        except Exception:  # pylint: disable=broad-except
            self.stats['start_rejected'] += 1
            return found
        model = list(start)
        changed = refused = 0
        script = []
        limit = case.get('stop_after', case['length'])
        for step in range(min(case['length'], limit + 1)):
            size = item_sizes(param, model)
            room = param.max_byte_num - size
            op = rng.choice(['append', 'append', 'insert', 'extend', 'iadd', 'pop', 'pop-index', 'remove', 'del-index',
                             'del-slice', 'set-index', 'set-slice', 'reverse', 'clear', 'grow', 'grow'])
            position = rng.randrange(-len(model) - 1, len(model) + 2)
            item = rng.choice(items) if items else None
            many = [rng.choice(items) for _ in range(rng.choice((0, 1, 2, 5, 40)))] if items else []
            # short-lived items: fresh copies that die once they are removed again, so that later items reuse their identity
            if item is not None and hasattr(item, '__dict__') and not isinstance(item, enum.Enum) and rng.random() < 0.4:
                item = copy.copy(item)
                many = [copy.copy(entry) for entry in many[:5]]
                self.stats['short_lived_items'] += 1 + len(many)
            # scripted: the same item leaves the vector, is changed by its owner and comes back (through ordinary edits)
            if script:
                op, position, item = script.pop(0)
                if op == 'grow-item':
                    if not grow(item):
                        script = []
                    forget(item)
                    self.stats['items_changed_outside'] += 1
                    continue
            elif model and room > 64 and hasattr(model[0], '__dict__') and rng.random() < 0.2:
                spot = rng.randrange(len(model))
                clone = copy.deepcopy(model[spot])
                if grow(copy.deepcopy(clone)):
                    script = [('pop-index', spot, None), ('grow-item', None, clone), ('insert', spot, clone)]
                    op, position, item = 'set-index', spot, clone
            if op == 'grow':
                if item is None:
                    continue
                if fat and room > 2 ** 12 and rng.random() < 0.7:
                    many = [rng.choice(fat) for _ in range(rng.randrange(1, 4))]
                else:
                    unit = max(1, param.get_item_size(item))
                    cheap = kind in ('OpaqueParam', 'VectorParamNumeric', 'VectorParamEnumCodeNumeric')
                    want = min(room // unit + rng.choice((-1, 0, 0, 1, 2)), 70000 if cheap else 300)
                    many = [item] * max(0, want)
                op = rng.choice(('extend', 'iadd'))
            slice_ = slice(rng.choice((None, position, 0, 1)), rng.choice((None, position + rng.randrange(4), -1)),
                           rng.choice((None, None, 1, 2, -1)))
            before = list(model)
            expected_exception = None
            try:
                if op == 'append':
                    model.append(item)
                elif op == 'insert':
                    model.insert(position, item)
                elif op in ('extend', 'iadd'):
                    model.extend(many)
                elif op == 'pop':
                    model.pop()
                elif op == 'pop-index':
                    model.pop(position)
                elif op == 'remove':
                    model.remove(item)
                elif op == 'del-index':
                    del model[position]
                elif op == 'del-slice':
                    del model[slice_]
                elif op == 'set-index':
                    model[position] = item
                elif op == 'set-slice':
                    model[slice_] = many
                elif op == 'reverse':
                    model.reverse()
                elif op == 'clear':
                    del model[:]
            except Exception as e:  # pylint: disable=broad-except
                # IndexError / ValueError of a list, or whatever an item's own __eq__ raises inside remove()
                expected_exception = type(e)
                model = before
            new_size = item_sizes(param, model)
            in_bounds = param.min_byte_num <= new_size <= param.max_byte_num
            if expected_exception is None and not in_bounds:
                model = before

            snapshot = list(vector._items)  # pylint: disable=protected-access
            Recorder.events = []
            raised = None
            # the argument of bulk edits in the shapes a caller may pass: any iterable, also a one-shot one
            shape = rng.choice(('list', 'list', 'tuple', 'generator', 'iterator'))
            given = {'list': list, 'tuple': tuple, 'generator': lambda seq: (entry for entry in seq), 'iterator': iter}[shape](many)
            if op in ('extend', 'iadd', 'set-slice'):
                self.stats['bulk_argument_' + shape] += 1
            try:
                if op == 'append':
                    vector.append(item)
                elif op == 'insert':
                    vector.insert(position, item)
                elif op == 'extend':
                    vector.extend(given)
                elif op == 'iadd':
                    vector += given
                elif op == 'pop':
                    vector.pop()
                elif op == 'pop-index':
                    vector.pop(position)
                elif op == 'remove':
                    vector.remove(item)
                elif op == 'del-index':
                    del vector[position]
                elif op == 'del-slice':
                    del vector[slice_]
                elif op == 'set-index':
                    vector[position] = item
                elif op == 'set-slice':
                    vector[slice_] = given
                elif op == 'reverse':
                    vector.reverse()
                elif op == 'clear':
                    vector.clear()
            except Exception as e:  # pylint: disable=broad-except
                raised = e
            self.stats['operations'] += 1
            self.stats['op_' + op] += 1
            now = list(vector._items)  # pylint: disable=protected-access

            def same(left, right):
                return len(left) == len(right) and all(a is b or (not hasattr(a, '__dict__') and a == b)
                                                       for a, b in zip(left, right))
            describe = '%s(%s) on %d items / %d bytes (bounds %d..%d)' % (
                op, 'slice %r' % (slice_, ) if 'slice' in op else 'pos %d, %d new' % (position, len(many)), len(before),
                size, param.min_byte_num, param.max_byte_num)
            if expected_exception is not None:
                if raised is None:
                    violation('accepted-where-list-raises', op, '%s succeeded, a list raises %s' % (describe, expected_exception.__name__))
                elif not isinstance(raised, expected_exception):
                    if isinstance(raised, self.length_errors) and not same(now, snapshot):
                        violation('partial-apply', op, '%s raised %s and changed the vector' % (describe, type(raised).__name__))
                    elif not isinstance(raised, self.length_errors):
                        violation('foreign-exception:%s' % type(raised).__name__, op, '%s raised %r, a list raises %s' % (
                            describe, raised, expected_exception.__name__))
                elif not same(now, snapshot):
                    violation('partial-apply', op, '%s raised %s and changed the vector' % (describe, type(raised).__name__))
            elif not in_bounds:
                refused += 1
                self.stats['bound_refusals_expected'] += 1
                if raised is None:
                    violation('accepted-out-of-bounds', op, '%s was accepted: body would be %d bytes' % (describe, new_size))
                elif not isinstance(raised, self.length_errors):
                    violation('foreign-exception:%s' % type(raised).__name__, op, '%s raised %r instead of a data-length error' % (describe, raised))
                if raised is not None and not same(now, snapshot):
                    violation('partial-apply', op, '%s was refused with %s but changed the vector (%d -> %d items)' % (
                        describe, type(raised).__name__, len(snapshot), len(now)))
            else:
                if raised is not None:
                    if isinstance(raised, self.length_errors):
                        violation('refused-in-bounds', op, '%s refused with %s although the result (%d bytes) is within bounds' % (
                            describe, type(raised).__name__, new_size))
                    else:
                        violation('foreign-exception:%s' % type(raised).__name__, op, '%s raised %r' % (describe, raised))
                    if not same(now, snapshot):
                        violation('partial-apply', op, '%s raised and changed the vector' % describe)
                elif not same(now, model):
                    violation('wrong-content', op, '%s: vector holds %d items, a list would hold %d' % (describe, len(now), len(model)))
                elif not same(before, model):
                    changed += 1
            # invariant events recorded during the operation, and the explicit check at the quiescent point
            for event in Recorder.events[:1]:
                violation(event[0], op, '%s: invariant broken inside the operation: %r' % (describe, event[1:]))
            actual_size = item_sizes(param, now)
            if vector._items_size != actual_size:  # pylint: disable=protected-access
                violation('size-drift', op, '%s: _items_size=%d but the items occupy %d bytes' % (
                    describe, vector._items_size, actual_size))  # pylint: disable=protected-access
            elif not param.min_byte_num <= actual_size <= param.max_byte_num:
                violation('out-of-bounds-state', op, '%s left %d body bytes' % (describe, actual_size))
            if found:
                break
            # resynchronise the model with what the vector really holds (the history continues from reality)
            model = now
            if step % 8 == 7 or step == case['length'] - 1:
                self.consequence(cls, param, vector, violation)
                if found:
                    break
        # the list the vector was built from still belongs to the caller, and the twin built from the same list is another vector
        if not found:
            self.stats['constructor_argument_checks'] += 1
            identical = lambda left, right: len(left) == len(right) and all(a is b or a == b for a, b in zip(left, right))
            if not identical(source, start):
                violation('argument-aliased', 'constructor', 'edits through the vector changed the list it was constructed from')
            elif not identical(twin._items, start):  # pylint: disable=protected-access
                violation('argument-aliased', 'constructor', 'edits through one vector changed a second vector built from the same list')
            else:
                held = list(vector._items)  # pylint: disable=protected-access
                del source[:]
                if not identical(vector._items, held) or not identical(twin._items, start):  # pylint: disable=protected-access
                    violation('argument-aliased', 'constructor', 'clearing the caller\'s list emptied the vector built from it')
        # last: the owner of an item changes it while it sits in the vector. The size bookkeeping cannot know (not an edit
        # through the sequence interface), but what compose() writes must still be consistent: prefix == body, round trip
        if not found and model and hasattr(model[0], '__dict__') and \
                param.max_byte_num - item_sizes(param, model) > 64 and rng.random() < 0.5:
            spot = rng.randrange(len(model))
            clone = copy.deepcopy(model[spot])
            try:
                vector[spot] = clone
            except Exception:  # pylint: disable=broad-except
                clone = None
            if clone is not None and grow(clone):
                forget(clone)
                step = case['length']
                self.stats['items_changed_in_place'] += 1
                self.consequence(cls, param, vector, violation)
        self.observe((name, case['rng']), changed > 0 and refused > 0, {'cls': name, 'rng': case['rng'],
                                                                         'changed': changed, 'refused': refused,
                                                                         'final_items': len(vector)})
        self.notes.setdefault('classes', set()).add(name)
        return found

    def consequence(self, cls, param, vector, violation):
        self.stats['compose_consequences'] += 1
        internal = vector._items  # pylint: disable=protected-access
        if len(internal) <= 2000:
            public = list(vector)
            if len(vector) != len(internal) or len(public) != len(internal) or \
                    any(a is not b and a != b for a, b in zip(public, internal)):
                violation('read-interface', 'iterate', 'len()/iteration/indexing disagree with the stored items')
                return
        width = param.item_num_size
        try:
            composed = bytes(vector.compose())
        except Exception as e:  # pylint: disable=broad-except
            violation('compose-raises:%s' % type(e).__name__, 'compose', 'compose() of an edited vector raised %r' % e)
            return
        if type(param).__name__ == 'ListParamParsable' or cls.__name__ == 'TlsHandshakeHelloRandomBytes':
            return
        prefix = int.from_bytes(composed[:width], 'big')
        if prefix != len(composed) - width:
            violation('compose-prefix', 'compose', 'length prefix %d but %d body bytes follow' % (prefix, len(composed) - width))
            return
        if not param.min_byte_num <= prefix <= param.max_byte_num:
            violation('compose-bounds', 'compose', 'composed body of %d bytes is outside %d..%d' % (
                prefix, param.min_byte_num, param.max_byte_num))
            return
        if len(internal) > 3000:
            self.stats['roundtrip_skipped_large'] += 1
            return
        try:
            again = cls.parse_exact_size(composed)
            if len(again) != len(vector) or structural.deep_state(list(again)) != structural.deep_state(list(vector)):
                violation('compose-roundtrip', 'compose', 'parse(compose()) of the edited vector differs')
        except Exception as e:  # pylint: disable=broad-except
            violation('compose-reparse:%s' % type(e).__name__, 'compose', 'parse(compose()) of the edited vector raised %r' % e)

    def floors(self):
        return {'operations': 8000, 'bound_refusals_expected': 300, 'compose_consequences': 500, 'classes': 35}

    def finish(self):
        return {'classes': sorted(self.notes.get('classes', set())), 'vector_classes': len(self.vectors),
                'icontract': self.icontract, 'invariant_evaluations': Recorder.evaluations}
