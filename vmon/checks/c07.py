# -*- coding: utf-8 -*-
"""C07 - SSH banner, packets, key exchange messages and host keys follow the RFCs.

Differential monitor vs. vmon/ref/ssh.py plus the padding-rule monitor (constraints of RFC 4253 section 6,
independent of the reference encoder) over payload lengths 0..35000.
"""
from vmon.checks import differential
from vmon.ref import ssh as ref


class Check(differential.DifferentialCheck):
    ID = 'C07'
    TECHNIQUE = 'runtime differential monitor vs. an independent RFC 4251/4253/4419/5656/8709 + OpenSSH certificate encoder; padding-rule monitor'
    RULE = ('one case = one generated banner, message (KEXINIT, DH/GEX messages, disconnect, unimplemented, newkeys), binary '
            'packet around it (minimal zero padding for compose, any valid padding for parse), host key (RSA/DSS/ECDSA/'
            'Ed25519, integers at bit lengths 8k-1/8k/8k+1) or OpenSSH v00/v01 certificate, built through the library '
            'constructors and through the reference encoder; padding rule: one case = one payload length; distinct = '
            'SHA-1 of (class, reference bytes); non-trivial = every case')
    BLOCKS = {'quick': 80, 'thorough': 12000}
    PER_BLOCK = 60
    ASSUMPTIONS = ('vmon/ref/ssh.py is my reading of RFC 4251/4253/4419/5656/8709 and PROTOCOL.certkeys',
                   'byte-for-byte comparison of composed packets assumes minimal, zero-filled padding (the RFC allows more and '
                   'random bytes; the padding-rule monitor judges only the constraints)',
                   'ECDSA points are generated with a non-zero leading coordinate byte')

    def generator(self):
        from vmon.gen import ssh  # pylint: disable=import-outside-toplevel
        return ssh

    def cases(self):
        for case in super(Check, self).cases():
            yield case
        top = 35000
        step = 1 if self.tier == 'thorough' else 97
        lengths = sorted(set(list(range(0, 600)) + list(range(600, top + 1, step)) + [top - i for i in range(16)]))
        chunk = 64
        for start in range(0, len(lengths), chunk):
            if self.mine(start // chunk):
                yield {'kind': 'padding', 'lengths': lengths[start:start + chunk]}

    def judge(self, case):
        if case['kind'] == 'padding':
            return self.judge_padding(case)
        return super(Check, self).judge(case)

    def judge_padding(self, case):
        import cryptoparser.ssh.record as record  # pylint: disable=import-outside-toplevel
        import cryptoparser.ssh.subprotocol as sub  # pylint: disable=import-outside-toplevel
        found = []
        for length in case['lengths']:
            # payload = message code + two strings: 1 + 4 + a + 4 + b  => shortest expressible payload is 9 bytes
            if length < 9:
                if length == 1:
                    message, cls = sub.SshNewKeys(), record.SshRecordKexDH
                elif length == 5:
                    message, cls = sub.SshUnimplementedMessage(7), record.SshRecordInit
                else:
                    continue
            else:
                message = sub.SshDHGroupExchangeGroup(bytearray(b'\x5a' * (length - 9)), bytearray())
                cls = record.SshRecordKexDHGroup
            single = {'kind': 'padding', 'lengths': [length]}
            self.observe(('padding', length), True, single)
            self.stats['padding_rule_packets'] += 1
            payload = bytes(message.compose())
            if len(payload) != length:
                found.append(self.violation('padding|payload-length', 'payload of %d bytes expected, message composes %d' % (
                    length, len(payload)), single))
                continue
            try:
                packet = bytes(cls(message).compose())
            except Exception as e:  # pylint: disable=broad-except
                found.append(self.violation('padding|compose-raises:%s' % type(e).__name__, 'payload length %d: %r' % (length, e), single))
                continue
            recovered, problem = ref.check_packet(packet)
            if problem is not None:
                found.append(self.violation('padding|rule', 'payload length %d: %s' % (length, problem), single))
            elif recovered != payload:
                found.append(self.violation('padding|payload-altered', 'payload length %d: the packet does not carry the payload' % length,
                                            single))
            else:
                try:
                    again = cls.parse_exact_size(packet)
                    if bytes(again.packet.compose()) != payload:
                        found.append(self.violation('padding|reparse-differs', 'payload length %d' % length, single))
                except Exception as e:  # pylint: disable=broad-except
                    found.append(self.violation('padding|reparse-raises:%s' % type(e).__name__, 'payload length %d: %r' % (length, e), single))
        dedup = {}
        for violation in found:
            dedup.setdefault(violation.key, violation)
        return list(dedup.values())

    def floors(self):
        floors = super(Check, self).floors()
        floors['padding_rule_packets'] = 700
        return floors
