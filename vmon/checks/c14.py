# -*- coding: utf-8 -*-
"""C14 - JSON and Markdown output is always well-formed, deterministic and faithful.

Serialisation monitor: json.dumps / as_json must return text json.loads accepts, as_markdown must return
text; repeated calls, the parse-compose round trip, rebuilt set/dict fields with another insertion
order, other serialisation orders in one process and other PYTHONHASHSEED values must give the same bytes.
"""
import hashlib
import json
import os
import random
import re
import subprocess
import sys

import attr

from vmon import bank, bootstrap, core, inventory, pipeline, structural

PER_CLASS = {'quick': 4, 'thorough': 60}
HASH_SEEDS = {'quick': (0, 1, 2), 'thorough': (0, 1, 2, 3, 4, 5, 6, 7)}


def render(obj):
    """(json text or ('raised', type)), (markdown text or marker)"""
    outputs = {}
    try:
        outputs['json'] = json.dumps(obj)
    except Exception as e:  # pylint: disable=broad-except
        outputs['json'] = ('raised', type(e).__name__, e)
    if hasattr(obj, 'as_json'):
        try:
            outputs['as_json'] = obj.as_json()
        except Exception as e:  # pylint: disable=broad-except
            outputs['as_json'] = ('raised', type(e).__name__, e)
    if hasattr(obj, 'as_markdown'):
        try:
            outputs['as_markdown'] = obj.as_markdown()
        except Exception as e:  # pylint: disable=broad-except
            outputs['as_markdown'] = ('raised', type(e).__name__, e)
    else:
        # objects that are not Serializable themselves are rendered the way a report holding them renders them
        from cryptoparser.common.base import Serializable  # pylint: disable=import-outside-toplevel
        try:
            outputs['markdown_result'] = Serializable._markdown_result(obj)[1]  # pylint: disable=protected-access
        except Exception as e:  # pylint: disable=broad-except
            outputs['markdown_result'] = ('raised', type(e).__name__, e)
    return outputs


_HEADER = re.compile(r'^(\* [^:]+:|\d+\.)$')
_ENTRY = re.compile(r'^(\* .+|\d+\.( .*)?)$')


def outline_problem(text):
    """The Markdown the library writes is an outline: entries `* name: value` / `N. value`, a header (`* name:` or a bare
    `N.`) owns the lines under it, which sit exactly one level (four blanks) deeper. Returns a description of the first line
    that does not fit, None for a well-formed outline. Single-line results are values, not outlines."""
    lines = text.split('\n')
    if lines and lines[-1] == '':
        lines.pop()
    if len(lines) < 2:
        return None
    previous_indent, previous_header = None, False
    for number, line in enumerate(lines):
        body = line.lstrip(' ')
        indent = len(line) - len(body)
        if not _ENTRY.match(body):
            return 'line %d is not an outline entry: %r' % (number + 1, line[:80])
        if indent % 4:
            return 'line %d is indented by %d blanks: %r' % (number + 1, indent, line[:80])
        if previous_indent is None:
            if indent:
                return 'the first line is indented: %r' % line[:80]
        elif previous_header:
            if indent != previous_indent + 4:
                return 'line %d under a header is indented by %d blanks instead of %d: %r' % (
                    number + 1, indent, previous_indent + 4, line[:80])
        elif indent > previous_indent:
            return 'line %d is deeper than the entry before it, which is not a header: %r' % (number + 1, line[:80])
        previous_indent, previous_header = indent, bool(_HEADER.match(body))
    if previous_header:
        return 'the last line is a header without anything under it: %r' % lines[-1][:80]
    return None


def comparable(outputs):
    return {name: (value if isinstance(value, str) else ('raised', value[1]) if isinstance(value, tuple) else repr(type(value)))
            for name, value in outputs.items()}


def digest_of(outputs):
    return hashlib.sha1(repr(sorted(comparable(outputs).items())).encode('utf-8', 'replace')).hexdigest()


def serializable_objects(root, limit=60):
    """Every object reachable from root that the library can render on its own: Serializable instances (also the
    non-parsable ones such as X.509 public keys) and parsable objects, in a deterministic walk order."""
    from cryptoparser.common.base import Serializable  # pylint: disable=import-outside-toplevel
    from cryptoparser.common.parse import ParsableBaseNoABC  # pylint: disable=import-outside-toplevel
    import enum  # pylint: disable=import-outside-toplevel
    found, stack, seen = [], [root], set()
    while stack and len(found) < limit:
        current = stack.pop(0)
        if id(current) in seen or isinstance(current, (str, bytes, bytearray, int, float, enum.Enum)) or current is None:
            continue
        seen.add(id(current))
        if isinstance(current, (Serializable, ParsableBaseNoABC)):
            found.append(current)
        if isinstance(current, dict):
            stack.extend(current.values())
        elif isinstance(current, (list, tuple, set, frozenset)):
            stack.extend(current)
        elif type(current).__module__.split('.')[0] in ('cryptoparser', 'cryptodatahub'):
            if attr.has(type(current)):
                stack.extend(getattr(current, field.name, None) for field in attr.fields(type(current)))
            stack.extend(getattr(current, '__dict__', {}).values())
    return found


def collection_families():
    import cryptoparser.tls.version as version  # pylint: disable=import-outside-toplevel
    from cryptodatahub.tls.version import TlsVersion  # pylint: disable=import-outside-toplevel
    families = {'TlsProtocolVersion': lambda: [version.TlsProtocolVersion(member) for member in TlsVersion]}
    for name, enum_class in list(inventory.int_enums().items())[:40] + list(inventory.string_enums().items())[:20]:
        families[name.split(':')[1]] = (lambda cls=enum_class: list(cls))
    return families


def render_collection(collection):
    from cryptoparser.common.base import Serializable  # pylint: disable=import-outside-toplevel
    try:
        return (json.dumps(collection), Serializable._markdown_result(collection)[1])  # pylint: disable=protected-access
    except Exception as e:  # pylint: disable=broad-except
        return ('raised', type(e).__name__)


def child_main(argv):
    """Child process: serialise the corpus objects listed in argv[0] (json file) and print digests.
    argv[1] (optional) = order seed: every renderable object reachable from the entries is rendered in an order
    shuffled with that seed (history / arrival-order independence from a FRESH interpreter)."""
    bootstrap.init()
    with open(argv[0]) as handle:
        wanted = json.load(handle)
    classes = inventory.parsable_classes(concrete_only=False)
    result = {}
    if len(argv) > 1 and argv[1] == '--collections':
        for name, make in sorted(collection_families().items()):
            for container in (set, frozenset):
                try:
                    result['%s|%s' % (container.__name__, name)] = hashlib.sha1(
                        repr(render_collection(container(make()))).encode('utf-8', 'replace')).hexdigest()
                except TypeError:
                    continue
        print('C14CHILD ' + json.dumps(result))
        return
    if len(argv) > 1:
        jobs = []
        for name, hex_data in wanted:
            cls = classes.get(name)
            try:
                obj, _ = cls.parse_immutable(bytes.fromhex(hex_data))
            except Exception:  # pylint: disable=broad-except
                continue
            for position, item in enumerate(serializable_objects(obj)):
                jobs.append(('%s|%s|%d|%s' % (name, hashlib.sha1(hex_data.encode('ascii')).hexdigest()[:16], position, type(item).__name__), item))
        # systematic arrival orders: in order number i the i-th object of every class is rendered first (rotation
        # inside each class), so for up to <number of orders> objects per class every one of them gets to be the first
        # of its class in some fresh interpreter; odd orders additionally reverse the class sequence
        rotation = int(argv[1].rsplit('-', 1)[1])
        by_class = {}
        for key, item in jobs:
            by_class.setdefault(type(item).__name__, []).append((key, item))
        jobs = []
        for class_name in sorted(by_class, reverse=bool(rotation % 2)):
            members = by_class[class_name]
            shift = rotation % len(members)
            jobs.extend(members[shift:] + members[:shift])
        for key, item in jobs:
            result[key] = digest_of(render(item))
        print('C14CHILD ' + json.dumps(result))
        return
    for name, hex_data in wanted:
        cls = classes.get(name)
        try:
            obj, _ = cls.parse_immutable(bytes.fromhex(hex_data))
        except Exception:  # pylint: disable=broad-except
            continue
        result['%s|%s' % (name, hex_data)] = digest_of(render(obj))
    print('C14CHILD ' + json.dumps(result))


class Check(core.CheckBase):
    ID = 'C14'
    TECHNIQUE = 'runtime serialisation monitor (json.loads acceptance, type, determinism across repeats, round trip, insertion order, serialisation order, PYTHONHASHSEED)'
    RULE = ('one case = one library object (every class reached by parsing the seed corpus, nested objects included; all '
            'members of the string/IntEnum tables) rendered with json.dumps, as_json and as_markdown; distinct = '
            '(class, source input, position); non-trivial = the object has at least one field or member besides its type')
    SHARDS = {'quick': 8, 'thorough': 16}
    ASSUMPTIONS = ('"equal objects" are an object and its parse(compose()) copy (when C01 holds for it) and copies rebuilt '
                   'with set/dict fields inserted in another order', )

    def setup(self):
        self.bank = bank.objects_by_class()
        self.corpus = pipeline.load_corpus()
        self.classes = inventory.parsable_classes(concrete_only=False)

    def cases(self):
        index = 0
        for name in sorted(self.bank):
            picks = list(range(len(self.bank[name])))
            self.plan_rng.shuffle(picks)
            for number in picks[:PER_CLASS[self.tier]]:
                index += 1
                if self.mine(index):
                    yield {'kind': 'object', 'cls': name, 'number': number}
        for name in sorted(list(inventory.string_enums()) + list(inventory.int_enums())):
            index += 1
            if self.mine(index):
                yield {'kind': 'enum', 'enum': name}
        blocks = 4 if self.tier == 'quick' else 16
        for block in range(blocks):
            index += 1
            if self.mine(index):
                yield {'kind': 'history', 'block': block, 'blocks': blocks}
        for block in range(blocks):
            index += 1
            if self.mine(index):
                yield {'kind': 'hashseed', 'block': block, 'blocks': blocks}
        for block in range(blocks):
            index += 1
            if self.mine(index):
                yield {'kind': 'freshorder', 'block': block, 'blocks': blocks}
        index += 1
        if self.mine(index):
            yield {'kind': 'collections'}
        index += 1
        if self.mine(index):
            yield {'kind': 'edge_values'}
        for family in ('tls', 'ssh', 'dns', 'opp'):
            for block in range(6 if self.tier == 'quick' else 48):
                index += 1
                if self.mine(index):
                    yield {'kind': 'generated', 'family': family, 'block': block}

    def judge(self, case):
        return getattr(self, 'judge_' + case['kind'])(case)

    # ------------------------------------------------------------------
    def _object(self, name, number):
        entries = self.bank.get(name, [])
        if number >= len(entries):
            return None
        return entries[number][0]

    def judge_outputs(self, obj, case, found):
        cls_name = type(obj).__name__
        first = render(obj)
        self.stats['objects_rendered'] += 1
        for name, value in first.items():
            if isinstance(value, tuple):
                signature = pipeline.exception_signature(value[2])
                found.append(self.violation('%s-raises|%s|%s|%s' % (name, signature[1], signature[0], cls_name),
                                            '%s of a %s raised %r' % (name, cls_name, value[2]), case))
            elif not isinstance(value, str):
                found.append(self.violation('%s-not-text|%s' % (name, cls_name),
                                            '%s of a %s returned %s instead of text' % (name, cls_name, type(value).__name__),
                                            case))
            elif name in ('json', 'as_json'):
                try:
                    json.loads(value)
                    self.stats['json_documents_accepted'] += 1
                except ValueError as e:
                    found.append(self.violation('json-invalid|%s' % cls_name,
                                                '%s of a %s is not accepted by json.loads: %s' % (name, cls_name, e), case))
        for name in ('as_markdown', 'markdown_result'):
            text = first.get(name)
            # values holding line breaks or rendered through a custom encoder are not outlines of the library's own making
            if isinstance(text, str) and isinstance(first.get('json'), str) and '\\n' not in first['json'] and '\\r' not in first['json']:
                self.stats['outlines_checked'] += 1
                problem = outline_problem(text)
                if problem:
                    found.append(self.violation('markdown-outline|%s' % cls_name,
                                                '%s of a %s is not a well-formed outline: %s' % (name, cls_name, problem), case))
        if 'json' in first and 'as_json' in first and isinstance(first['json'], str) and first['json'] != first['as_json']:
            found.append(self.violation('as_json-differs-from-dumps|%s' % cls_name, 'as_json() != json.dumps(obj)', case))
        second = render(obj)
        if comparable(first) != comparable(second):
            which = [n for n in first if comparable(first)[n] != comparable(second).get(n)]
            found.append(self.violation('nondeterministic|%s|%s' % ('+'.join(which), cls_name),
                                        'two consecutive renderings of the same %s differ' % cls_name, case))
        elif hasattr(obj, 'compose'):
            # the report of an object does not depend on whether it has been composed (or fingerprinted) in between
            try:
                obj.compose()
                for probe in ('key_tag', 'fingerprints', 'key_bytes'):
                    if isinstance(getattr(type(obj), probe, None), property):
                        getattr(obj, probe)
            except Exception:  # pylint: disable=broad-except
                pass
            third = render(obj)
            self.stats['renderings_after_compose'] += 1
            if comparable(first) != comparable(third):
                which = [n for n in first if comparable(first)[n] != comparable(third).get(n)]
                found.append(self.violation('changes-after-compose|%s|%s' % ('+'.join(which), cls_name),
                                            'the rendering of a %s changes once it has been composed' % cls_name, case))
        return first

    def judge_object(self, case):
        obj = self._object(case['cls'], case['number'])
        if obj is None:
            return []
        return self.judge_one(obj, case, ('object', case['cls'], case['number']))

    def judge_edge_values(self, case):
        """Constructed objects holding values at the ends of their domains - aware datetimes whose UTC equivalent leaves the
        calendar, the first and last representable instants, empty and very long strings and byte strings: rendering succeeds."""
        import datetime  # pylint: disable=import-outside-toplevel
        import cryptoparser.httpx.header as header  # pylint: disable=import-outside-toplevel
        import cryptoparser.tls.subprotocol as sub  # pylint: disable=import-outside-toplevel
        zone = lambda minutes: datetime.timezone(datetime.timedelta(minutes=minutes))
        moments = [datetime.datetime(9999, 12, 31, 23, 59, 59, tzinfo=zone(-60)), datetime.datetime(1, 1, 1, 0, 0, 0, tzinfo=zone(60)),
                   datetime.datetime(9999, 12, 31, 23, 59, 59, tzinfo=zone(0)), datetime.datetime(1, 1, 1, tzinfo=zone(0)),
                   datetime.datetime(9999, 12, 31, 23, 59, 59), datetime.datetime(1, 1, 1), datetime.datetime(1970, 1, 1, tzinfo=zone(840)),
                   datetime.datetime(2038, 1, 19, 3, 14, 8, tzinfo=zone(-720))]
        found = []
        for number, moment in enumerate(moments):
            builders = [lambda m=moment: header.HttpHeaderFieldValueDate(m), lambda m=moment: header.HttpHeaderFieldValueExpires(m),
                        lambda m=moment: header.HttpHeaderFieldValueLastModified(m),
                        lambda m=moment: header.HttpHeaderFieldValueSetCookie('n', 'v', expires=m),
                        lambda m=moment: sub.TlsHandshakeHelloRandom(m)]
            for position, build in enumerate(builders):
                try:
                    obj = build()
                except Exception:  # pylint: disable=broad-except
                    continue        # the constructor refuses the value: nothing to render
                self.stats['edge_value_objects'] += 1
                self.judge_outputs(obj, dict(case, moment=moment.isoformat(), builder=position), found)
                self.observe(('edge', number, position), True, {'kind': 'edge-values', 'cls': type(obj).__name__, 'value': moment.isoformat()})
        dedup = {}
        for violation in found:
            dedup.setdefault(violation.key, violation)
        return list(dedup.values())

    def judge_input(self, case):
        """Self-contained witness: the object parsed from the given bytes."""
        cls = inventory.resolve(case['cls'])
        obj = cls.parse_exact_size(bytes.fromhex(case['hex']))
        return self.judge_one(obj, case, ('input', case['cls'], case['hex']))

    def judge_generated(self, case):
        """Constructed objects (vmon/gen: built through the public constructors with bytes rather than bytearray values, sets
        with several members, unknown / GREASE code points, None-valued optional fields) and the library objects nested in them."""
        import importlib  # pylint: disable=import-outside-toplevel
        rng = random.Random('C14/gen/%s/%s/%s' % (self.seed, case['family'], case['block']))
        found = {}
        for number, pair in enumerate(importlib.import_module('vmon.gen.' + case['family']).generate(rng, 40)):
            for position, obj in enumerate(serializable_objects(pair.obj, limit=6)):
                self.stats['constructed_objects'] += 1
                for violation in self.judge_one(obj, case, ('generated', case['family'], case['block'], number, position)):
                    found.setdefault(violation.key, violation)
        return list(found.values())

    def judge_one(self, obj, case, identity):  # pylint: disable=too-many-branches,too-many-locals
        found = []
        cls = type(obj)
        cls_name = cls.__name__
        first = self.judge_outputs(obj, case, found)
        nontrivial = bool(getattr(obj, '__dict__', None)) or hasattr(obj, '__len__')
        self.observe(identity, nontrivial,
                     {'cls': inventory.class_name(cls), 'json': first.get('json')[:160] if isinstance(first.get('json'), str) else str(first.get('json'))[:80]})
        self.notes.setdefault('classes', set()).add(inventory.class_name(cls))
        # equal objects: the parse(compose()) copy
        if hasattr(cls, 'parse_exact_size') and hasattr(obj, 'compose'):
            try:
                copy_obj = cls.parse_exact_size(bytes(obj.compose()))
                strictly_equal = structural.deep_state(copy_obj, strict_types=True) == structural.deep_state(obj, strict_types=True)
                try:
                    library_equal = bool(copy_obj == obj) and (structural.equal(copy_obj, obj) or self.same_but_for_enum_wrapping(copy_obj, obj))
                except Exception:  # pylint: disable=broad-except
                    library_equal = False
                if strictly_equal or library_equal:
                    # equal by the library's own == (bytes == bytearray, same instant) and field by field
                    self.stats['roundtrip_copies_compared'] += 1
                    if not strictly_equal:
                        self.stats['roundtrip_copies_equal_not_identical'] += 1
                    if comparable(render(copy_obj)) != comparable(first):
                        locus = structural.diff_locus(structural.deep_state(obj, strict_types=True),
                                                      structural.deep_state(copy_obj, strict_types=True)) if not strictly_equal else None
                        found.append(self.violation('roundtrip-output-differs|%s' % (
                            cls_name if strictly_equal or not locus or not locus[0] else locus[0].split('.')[-1]),
                                                    'an object and its (equal) parse(compose()) copy render differently', case))
            except Exception:  # pylint: disable=broad-except
                pass
        # equal objects: set / dict fields rebuilt with another insertion order
        if attr.has(cls):
            for field in attr.fields(cls):
                if not field.init:
                    continue
                value = getattr(obj, field.name, None)
                rebuilt = None
                if isinstance(value, (set, frozenset)) and len(value) > 1:
                    ordered = sorted(value, key=repr)
                    rebuilt = [type(value)(ordered), type(value)(reversed(ordered))]
                    rng = random.Random(len(ordered))
                    shuffled = ordered[:]
                    rng.shuffle(shuffled)
                    rebuilt.append(type(value)(shuffled))
                elif type(value) is dict and len(value) > 1:  # pylint: disable=unidiomatic-typecheck
                    rebuilt = [dict(reversed(list(value.items())))]
                if not rebuilt:
                    continue
                for other_value in rebuilt:
                    try:
                        other = attr.evolve(obj, **{field.name.lstrip('_'): other_value})
                    except Exception:  # pylint: disable=broad-except
                        continue
                    if not structural.equal(other, obj):
                        continue
                    self.stats['insertion_orders_compared'] += 1
                    if comparable(render(other)) != comparable(first):
                        found.append(self.violation(
                            'insertion-order|%s.%s' % (structural.owner_of_field(cls, field.name), field.name),
                            'equal %s objects whose %s was filled in a different order render differently' % (
                                cls_name, field.name), case))
                        break
        return found

    @staticmethod
    def same_but_for_enum_wrapping(left, right):
        """Equal for the library's == and differing only in that one side holds the plain value (10) where the other holds
        the enumeration member with that value (MYSQL_10 = 10): the same message, which has one rendering."""
        import enum  # pylint: disable=import-outside-toplevel

        def same(one, other):
            if isinstance(one, enum.Enum) != isinstance(other, enum.Enum):
                member, value = (one, other) if isinstance(one, enum.Enum) else (other, one)
                return isinstance(member, (int, str)) and type(value) in (int, str) and member.value == value
            if attr.has(type(one)) and type(one) is type(other):
                return all(same(getattr(one, field.name), getattr(other, field.name)) for field in attr.fields(type(one)))
            if isinstance(one, (list, tuple)) and isinstance(other, (list, tuple)) and len(one) == len(other):
                return all(same(a, b) for a, b in zip(one, other))
            return structural.equal(one, other)
        try:
            return same(left, right)
        except Exception:  # pylint: disable=broad-except
            return False

    def judge_enum(self, case):
        enums = dict(inventory.string_enums())
        enums.update(inventory.int_enums())
        cls = enums[case['enum']]
        found = []
        for member in cls:
            first = self.judge_outputs(member, case, found)
            self.observe(('enum', case['enum'], member.name), True,
                         {'enum': case['enum'], 'member': member.name, 'json': str(first.get('json'))[:80]})
            self.stats['enum_members_rendered'] += 1
        dedup = {}
        for violation in found:
            dedup.setdefault(violation.key, violation)
        return list(dedup.values())

    def _block(self, case):
        selected = [entry for number, entry in enumerate(self.corpus) if number % case['blocks'] == case['block']]
        return selected if self.tier == 'thorough' else selected[::3]

    def judge_history(self, case):
        """The same objects rendered in three different orders in one process give identical output per object."""
        entries = self._block(case)
        found = []
        reference = {}
        rng = random.Random('C14/history/%s/%s' % (self.seed, case['block']))
        for round_number in range(3):
            order = list(range(len(entries)))
            if round_number:
                rng.shuffle(order)
            for position in order:
                name, data = entries[position]
                cls = self.classes.get(name)
                try:
                    obj, _ = cls.parse_immutable(data)
                except Exception:  # pylint: disable=broad-except
                    continue
                digest = digest_of(render(obj))
                self.stats['history_renderings'] += 1
                if position not in reference:
                    reference[position] = digest
                elif reference[position] != digest:
                    found.append(self.violation('history-dependent|%s' % type(obj).__name__,
                                                'the rendering of %s depends on what was serialised before it' % name,
                                                dict(case, cls=name, hex=data.hex())))
        self.observe(('history', case['block']), True, {'kind': 'history', 'objects': len(entries)})
        dedup = {}
        for violation in found:
            dedup.setdefault(violation.key, violation)
        return list(dedup.values())

    def judge_hashseed(self, case):
        entries = self._block(case)
        wanted = [[name, data.hex()] for name, data in entries]
        scratch = os.path.join(bootstrap.WORK, 'c14-%d-%d-%s.json' % (os.getpid(), case['block'], self.seed))
        os.makedirs(bootstrap.WORK, exist_ok=True)
        with open(scratch, 'w') as handle:
            json.dump(wanted, handle)
        results = {}
        found = []
        try:
            for hash_seed in HASH_SEEDS[self.tier]:
                env = dict(os.environ, PYTHONHASHSEED=str(hash_seed))
                try:
                    proc = subprocess.run([sys.executable, '-c',
                                           'import sys; sys.path.insert(0, %r); from vmon.checks import c14; '
                                           'c14.child_main(sys.argv[1:])' % bootstrap.VERIF, scratch],
                                          env=env, cwd=bootstrap.VERIF, capture_output=True, text=True, timeout=600)
                except subprocess.TimeoutExpired:
                    self.inconclusive.append('hash-seed child timed out')
                    continue
                line = [l for l in proc.stdout.splitlines() if l.startswith('C14CHILD ')]
                if not line:
                    self.inconclusive.append('hash-seed child failed: %s' % proc.stderr[-300:])
                    continue
                results[hash_seed] = json.loads(line[0][len('C14CHILD '):])
                self.stats['hashseed_children'] += 1
        finally:
            try:
                os.unlink(scratch)
            except OSError:
                pass
        seeds = sorted(results)
        for key in results.get(seeds[0], {}) if seeds else []:
            values = set(results[s].get(key) for s in seeds)
            self.stats['hashseed_objects_compared'] += 1
            if len(values) > 1:
                name, hex_data = key.split('|')
                found.append(self.violation('hashseed-dependent|%s' % name.split(':')[1],
                                            'the rendering of %s changes with PYTHONHASHSEED' % name,
                                            dict(case, cls=name, hex=hex_data)))
        self.observe(('hashseed', case['block']), True, {'kind': 'hashseed', 'objects': len(entries), 'seeds': seeds})
        dedup = {}
        for violation in found:
            dedup.setdefault(violation.key, violation)
        return list(dedup.values())

    def _class_block(self, case):
        """All corpus entries of the classes that hash into this block (entries of one class stay together: an
        arrival-order effect needs two objects of the same class), at most 8 (quick) / 40 per class."""
        per_class = {}
        for name, data in self.corpus:
            if int(hashlib.sha1(name.encode('ascii')).hexdigest(), 16) % case['blocks'] == case['block']:
                per_class.setdefault(name, []).append((name, data))
        cap = 8 if self.tier == 'quick' else 40
        return [entry for name in sorted(per_class) for entry in per_class[name][-cap:]]

    def _children(self, case, variants, extra_args):
        """Run one child per variant (env, argv suffix); returns {variant label: digests}."""
        entries = self._class_block(case) if case['kind'] == 'freshorder' else self._block(case)
        wanted = [[name, data.hex()] for name, data in entries]
        scratch = os.path.join(bootstrap.WORK, 'c14-%s-%d-%d-%s.json' % (case['kind'], os.getpid(), case.get('block', 0), self.seed))
        os.makedirs(bootstrap.WORK, exist_ok=True)
        with open(scratch, 'w') as handle:
            json.dump(wanted, handle)
        results = {}
        try:
            for label, hash_seed in variants:
                env = dict(os.environ, PYTHONHASHSEED=str(hash_seed))
                try:
                    proc = subprocess.run([sys.executable, '-c',
                                           'import sys; sys.path.insert(0, %r); from vmon.checks import c14; '
                                           'c14.child_main(sys.argv[1:])' % bootstrap.VERIF, scratch] + extra_args(label),
                                          env=env, cwd=bootstrap.VERIF, capture_output=True, text=True, timeout=900)
                except subprocess.TimeoutExpired:
                    self.inconclusive.append('%s child timed out' % case['kind'])
                    continue
                line = [l for l in proc.stdout.splitlines() if l.startswith('C14CHILD ')]
                if not line:
                    self.inconclusive.append('%s child failed: %s' % (case['kind'], proc.stderr[-300:]))
                    continue
                results[label] = json.loads(line[0][len('C14CHILD '):])
        finally:
            try:
                os.unlink(scratch)
            except OSError:
                pass
        return results

    def judge_freshorder(self, case):
        """The same renderable objects, each child a fresh interpreter rendering them in another order."""
        orders = ['order-%d' % i for i in range(8 if self.tier == 'quick' else 16)]
        results = self._children(case, [(label, 0) for label in orders],
                                 lambda label: ['C14/%s/%s/%s' % (self.seed, case['block'], label)])
        found = []
        labels = sorted(results)
        for key in results.get(labels[0], {}) if labels else []:
            values = set(results[label].get(key) for label in labels)
            self.stats['freshorder_objects_compared'] += 1
            if len(values) > 1:
                parts = key.split('|')
                found.append(self.violation('arrival-order-dependent|%s' % parts[-1],
                                            'the rendering of a %s (inside %s) depends on which objects were rendered before it '
                                            'in the same process' % (parts[-1], parts[0]), dict(case, object=key[:200])))
        self.observe(('freshorder', case['block']), True, {'kind': 'freshorder', 'orders': labels,
                                                           'objects': len(results.get(labels[0], {})) if labels else 0})
        dedup = {}
        for violation in found:
            dedup.setdefault(violation.key, violation)
        return list(dedup.values())

    def judge_collections(self, case):
        """Sets of library objects / enum members are reports too: their rendering must not depend on the insertion
        order (in-process permutations) - the hash-seed side is covered by rendering the same sets in child processes."""
        found = []
        families = collection_families()
        rng = random.Random('C14/collections/%s' % self.seed)
        for name, make in sorted(families.items()):
            reference = None
            for attempt in range(6):
                items = make()
                if attempt:
                    rng.shuffle(items)
                for container in (set, frozenset):
                    try:
                        collection = container(items)
                    except TypeError:
                        continue
                    self.stats['collections_rendered'] += 1
                    rendered = render_collection(collection)
                    key = (container.__name__, )
                    if reference is None:
                        reference = {}
                    if key not in reference:
                        reference[key] = rendered
                    elif reference[key] != rendered:
                        found.append(self.violation('insertion-order|set-of-%s' % name,
                                                    'a %s of all %s renders differently when filled in another order' % (
                                                        container.__name__, name), case))
            self.observe(('collections', name), True, {'kind': 'collections', 'family': name})
        # the same sets in fresh interpreters with other hash seeds
        case_for_children = dict(case, block=0, blocks=10 ** 6)
        results = self._children(case_for_children, [('hashseed-%d' % seed, seed) for seed in HASH_SEEDS[self.tier]],
                                 lambda label: ['--collections'])
        labels = sorted(results)
        for key in results.get(labels[0], {}) if labels else []:
            self.stats['collections_hashseed_compared'] += 1
            if len(set(results[label].get(key) for label in labels)) > 1:
                found.append(self.violation('hashseed-dependent|%s' % key.replace('|', '-of-'),
                                            'a %s renders differently under another PYTHONHASHSEED' % key.replace('|', ' of all '), case))
        dedup = {}
        for violation in found:
            dedup.setdefault(violation.key, violation)
        return list(dedup.values())

    def floors(self):
        return {'objects_rendered': 1000, 'json_documents_accepted': 1000, 'enum_members_rendered': 300,
                'history_renderings': 600, 'hashseed_objects_compared': 150, 'classes': 250,
                'freshorder_objects_compared': 300, 'collections_rendered': 200}

    def finish(self):
        return {'classes': sorted(self.notes.get('classes', set()))}
