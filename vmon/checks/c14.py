# -*- coding: utf-8 -*-
"""C14 - JSON and Markdown output is always well-formed, deterministic and faithful.

Serialisation monitor: json.dumps / as_json must return text json.loads accepts, as_markdown must return
text; repeated calls, the parse-compose round trip, rebuilt set/dict fields with another insertion
order, other serialisation orders in one process and other PYTHONHASHSEED values must give the same bytes.
"""
import hashlib
import json
import os
import random
import subprocess
import sys

import attr

from vmon import bank, bootstrap, core, inventory, pipeline, structural

PER_CLASS = {'quick': 4, 'thorough': 60}
HASH_SEEDS = {'quick': (0, 1, 2), 'thorough': (0, 1, 2, 3, 4, 5, 6, 7)}


def render(obj):
    """(json text or ('raised', type)), (markdown text or marker)"""
    outputs = {}
    try:
        outputs['json'] = json.dumps(obj)
    except Exception as e:  # pylint: disable=broad-except
        outputs['json'] = ('raised', type(e).__name__, e)
    if hasattr(obj, 'as_json'):
        try:
            outputs['as_json'] = obj.as_json()
        except Exception as e:  # pylint: disable=broad-except
            outputs['as_json'] = ('raised', type(e).__name__, e)
    if hasattr(obj, 'as_markdown'):
        try:
            outputs['as_markdown'] = obj.as_markdown()
        except Exception as e:  # pylint: disable=broad-except
            outputs['as_markdown'] = ('raised', type(e).__name__, e)
    return outputs


def comparable(outputs):
    return {name: (value if isinstance(value, str) else ('raised', value[1]) if isinstance(value, tuple) else repr(type(value)))
            for name, value in outputs.items()}


def digest_of(outputs):
    return hashlib.sha1(repr(sorted(comparable(outputs).items())).encode('utf-8', 'replace')).hexdigest()


def child_main(argv):
    """Child process: serialise the corpus objects listed in argv[0] (json file) and print digests."""
    bootstrap.init()
    with open(argv[0]) as handle:
        wanted = json.load(handle)
    classes = inventory.parsable_classes(concrete_only=False)
    result = {}
    for name, hex_data in wanted:
        cls = classes.get(name)
        try:
            obj, _ = cls.parse_immutable(bytes.fromhex(hex_data))
        except Exception:  # pylint: disable=broad-except
            continue
        result['%s|%s' % (name, hex_data)] = digest_of(render(obj))
    print('C14CHILD ' + json.dumps(result))


class Check(core.CheckBase):
    ID = 'C14'
    TECHNIQUE = 'runtime serialisation monitor (json.loads acceptance, type, determinism across repeats, round trip, insertion order, serialisation order, PYTHONHASHSEED)'
    RULE = ('one case = one library object (every class reached by parsing the seed corpus, nested objects included; all '
            'members of the string/IntEnum tables) rendered with json.dumps, as_json and as_markdown; distinct = '
            '(class, source input, position); non-trivial = the object has at least one field or member besides its type')
    SHARDS = {'quick': 8, 'thorough': 16}
    ASSUMPTIONS = ('"equal objects" are an object and its parse(compose()) copy (when C01 holds for it) and copies rebuilt '
                   'with set/dict fields inserted in another order', )

    def setup(self):
        self.bank = bank.objects_by_class()
        self.corpus = pipeline.load_corpus()
        self.classes = inventory.parsable_classes(concrete_only=False)

    def cases(self):
        index = 0
        for name in sorted(self.bank):
            picks = list(range(len(self.bank[name])))
            self.plan_rng.shuffle(picks)
            for number in picks[:PER_CLASS[self.tier]]:
                index += 1
                if self.mine(index):
                    yield {'kind': 'object', 'cls': name, 'number': number}
        for name in sorted(list(inventory.string_enums()) + list(inventory.int_enums())):
            index += 1
            if self.mine(index):
                yield {'kind': 'enum', 'enum': name}
        blocks = 4 if self.tier == 'quick' else 16
        for block in range(blocks):
            index += 1
            if self.mine(index):
                yield {'kind': 'history', 'block': block, 'blocks': blocks}
        for block in range(blocks):
            index += 1
            if self.mine(index):
                yield {'kind': 'hashseed', 'block': block, 'blocks': blocks}

    def judge(self, case):
        return getattr(self, 'judge_' + case['kind'])(case)

    # ------------------------------------------------------------------
    def _object(self, name, number):
        entries = self.bank.get(name, [])
        if number >= len(entries):
            return None
        return entries[number][0]

    def judge_outputs(self, obj, case, found):
        cls_name = type(obj).__name__
        first = render(obj)
        self.stats['objects_rendered'] += 1
        for name, value in first.items():
            if isinstance(value, tuple):
                signature = pipeline.exception_signature(value[2])
                found.append(self.violation('%s-raises|%s|%s|%s' % (name, signature[1], cls_name, signature[0]),
                                            '%s of a %s raised %r' % (name, cls_name, value[2]), case))
            elif not isinstance(value, str):
                found.append(self.violation('%s-not-text|%s' % (name, cls_name),
                                            '%s of a %s returned %s instead of text' % (name, cls_name, type(value).__name__),
                                            case))
            elif name in ('json', 'as_json'):
                try:
                    json.loads(value)
                    self.stats['json_documents_accepted'] += 1
                except ValueError as e:
                    found.append(self.violation('json-invalid|%s' % cls_name,
                                                '%s of a %s is not accepted by json.loads: %s' % (name, cls_name, e), case))
        if 'json' in first and 'as_json' in first and isinstance(first['json'], str) and first['json'] != first['as_json']:
            found.append(self.violation('as_json-differs-from-dumps|%s' % cls_name, 'as_json() != json.dumps(obj)', case))
        second = render(obj)
        if comparable(first) != comparable(second):
            which = [n for n in first if comparable(first)[n] != comparable(second).get(n)]
            found.append(self.violation('nondeterministic|%s|%s' % ('+'.join(which), cls_name),
                                        'two consecutive renderings of the same %s differ' % cls_name, case))
        return first

    def judge_object(self, case):  # pylint: disable=too-many-branches,too-many-locals
        obj = self._object(case['cls'], case['number'])
        if obj is None:
            return []
        found = []
        cls = type(obj)
        cls_name = cls.__name__
        first = self.judge_outputs(obj, case, found)
        nontrivial = bool(getattr(obj, '__dict__', None)) or hasattr(obj, '__len__')
        self.observe(('object', case['cls'], case['number']), nontrivial,
                     {'cls': case['cls'], 'json': first.get('json')[:160] if isinstance(first.get('json'), str) else str(first.get('json'))[:80]})
        self.notes.setdefault('classes', set()).add(case['cls'])
        # equal objects: the parse(compose()) copy
        if hasattr(cls, 'parse_exact_size') and hasattr(obj, 'compose'):
            try:
                copy_obj = cls.parse_exact_size(bytes(obj.compose()))
                if structural.deep_state(copy_obj, strict_types=True) == structural.deep_state(obj, strict_types=True):
                    self.stats['roundtrip_copies_compared'] += 1
                    if comparable(render(copy_obj)) != comparable(first):
                        found.append(self.violation('roundtrip-output-differs|%s' % cls_name,
                                                    'an object and its parse(compose()) copy render differently', case))
            except Exception:  # pylint: disable=broad-except
                pass
        # equal objects: set / dict fields rebuilt with another insertion order
        if attr.has(cls):
            for field in attr.fields(cls):
                if not field.init:
                    continue
                value = getattr(obj, field.name, None)
                rebuilt = None
                if isinstance(value, (set, frozenset)) and len(value) > 1:
                    ordered = sorted(value, key=repr)
                    rebuilt = [type(value)(ordered), type(value)(reversed(ordered))]
                    rng = random.Random(len(ordered))
                    shuffled = ordered[:]
                    rng.shuffle(shuffled)
                    rebuilt.append(type(value)(shuffled))
                elif type(value) is dict and len(value) > 1:  # pylint: disable=unidiomatic-typecheck
                    rebuilt = [dict(reversed(list(value.items())))]
                if not rebuilt:
                    continue
                for other_value in rebuilt:
                    try:
                        other = attr.evolve(obj, **{field.name.lstrip('_'): other_value})
                    except Exception:  # pylint: disable=broad-except
                        continue
                    if not structural.equal(other, obj):
                        continue
                    self.stats['insertion_orders_compared'] += 1
                    if comparable(render(other)) != comparable(first):
                        found.append(self.violation(
                            'insertion-order|%s.%s' % (structural.owner_of_field(cls, field.name), field.name),
                            'equal %s objects whose %s was filled in a different order render differently' % (
                                cls_name, field.name), case))
                        break
        return found

    def judge_enum(self, case):
        enums = dict(inventory.string_enums())
        enums.update(inventory.int_enums())
        cls = enums[case['enum']]
        found = []
        for member in cls:
            first = self.judge_outputs(member, case, found)
            self.observe(('enum', case['enum'], member.name), True,
                         {'enum': case['enum'], 'member': member.name, 'json': str(first.get('json'))[:80]})
            self.stats['enum_members_rendered'] += 1
        dedup = {}
        for violation in found:
            dedup.setdefault(violation.key, violation)
        return list(dedup.values())

    def _block(self, case):
        selected = [entry for number, entry in enumerate(self.corpus) if number % case['blocks'] == case['block']]
        return selected if self.tier == 'thorough' else selected[::3]

    def judge_history(self, case):
        """The same objects rendered in three different orders in one process give identical output per object."""
        entries = self._block(case)
        found = []
        reference = {}
        rng = random.Random('C14/history/%s/%s' % (self.seed, case['block']))
        for round_number in range(3):
            order = list(range(len(entries)))
            if round_number:
                rng.shuffle(order)
            for position in order:
                name, data = entries[position]
                cls = self.classes.get(name)
                try:
                    obj, _ = cls.parse_immutable(data)
                except Exception:  # pylint: disable=broad-except
                    continue
                digest = digest_of(render(obj))
                self.stats['history_renderings'] += 1
                if position not in reference:
                    reference[position] = digest
                elif reference[position] != digest:
                    found.append(self.violation('history-dependent|%s' % type(obj).__name__,
                                                'the rendering of %s depends on what was serialised before it' % name,
                                                dict(case, cls=name, hex=data.hex())))
        self.observe(('history', case['block']), True, {'kind': 'history', 'objects': len(entries)})
        dedup = {}
        for violation in found:
            dedup.setdefault(violation.key, violation)
        return list(dedup.values())

    def judge_hashseed(self, case):
        entries = self._block(case)
        wanted = [[name, data.hex()] for name, data in entries]
        scratch = os.path.join(bootstrap.WORK, 'c14-%d-%d-%s.json' % (os.getpid(), case['block'], self.seed))
        os.makedirs(bootstrap.WORK, exist_ok=True)
        with open(scratch, 'w') as handle:
            json.dump(wanted, handle)
        results = {}
        found = []
        try:
            for hash_seed in HASH_SEEDS[self.tier]:
                env = dict(os.environ, PYTHONHASHSEED=str(hash_seed))
                try:
                    proc = subprocess.run([sys.executable, '-c',
                                           'import sys; sys.path.insert(0, %r); from vmon.checks import c14; '
                                           'c14.child_main(sys.argv[1:])' % bootstrap.VERIF, scratch],
                                          env=env, cwd=bootstrap.VERIF, capture_output=True, text=True, timeout=600)
                except subprocess.TimeoutExpired:
                    self.inconclusive.append('hash-seed child timed out')
                    continue
                line = [l for l in proc.stdout.splitlines() if l.startswith('C14CHILD ')]
                if not line:
                    self.inconclusive.append('hash-seed child failed: %s' % proc.stderr[-300:])
                    continue
                results[hash_seed] = json.loads(line[0][len('C14CHILD '):])
                self.stats['hashseed_children'] += 1
        finally:
            try:
                os.unlink(scratch)
            except OSError:
                pass
        seeds = sorted(results)
        for key in results.get(seeds[0], {}) if seeds else []:
            values = set(results[s].get(key) for s in seeds)
            self.stats['hashseed_objects_compared'] += 1
            if len(values) > 1:
                name, hex_data = key.split('|')
                found.append(self.violation('hashseed-dependent|%s' % name.split(':')[1],
                                            'the rendering of %s changes with PYTHONHASHSEED' % name,
                                            dict(case, cls=name, hex=hex_data)))
        self.observe(('hashseed', case['block']), True, {'kind': 'hashseed', 'objects': len(entries), 'seeds': seeds})
        dedup = {}
        for violation in found:
            dedup.setdefault(violation.key, violation)
        return list(dedup.values())

    def floors(self):
        return {'objects_rendered': 1000, 'json_documents_accepted': 1000, 'enum_members_rendered': 300,
                'history_renderings': 600, 'hashseed_objects_compared': 150, 'classes': 250}

    def finish(self):
        return {'classes': sorted(self.notes.get('classes', set()))}
