# -*- coding: utf-8 -*-
"""C02 - parsing untrusted bytes fails only with the documented parse errors.

Exception-type monitor on the public entry points, driven by W-mutate over the seed corpus.
"""
import random

from vmon import core, inventory, mutate, pipeline

BUDGET = {'quick': 160, 'thorough': 16000}

TARGETED = [
    # (class, hex) - shapes named in the statement / found by reading the code
    ('cryptoparser.ssh.subprotocol:SshProtocolMessage', b'SSH-2.0-\n'.hex()),
    ('cryptoparser.ssh.subprotocol:SshProtocolMessage', b'SSH-2.0- \r\n'.hex()),
    ('cryptoparser.ssh.subprotocol:SshProtocolMessage', b'SSH-2.0-OpenSSH_8.1 \r\n'.hex()),
    ('cryptoparser.tls.extension:TlsExtensionServerNameClient', '0000000b0009000006ff2e2e2e2e2e'),
    ('cryptoparser.tls.extension:TlsExtensionServerNameClient', '00000009000700000478802d61'),
    ('cryptoparser.tls.rdp:TPKT', '03000003'),
    ('cryptoparser.tls.rdp:TPKT', '03000000'),
    ('cryptoparser.tls.rdp:TPKT', '0300000400'),
]


def host_name_inputs():
    """server_name extensions (alone and inside a client hello) over the host-name grammar: empty, 63- and 64-byte labels,
    dots in every position, A-labels (well-formed, malformed, mixed case), non-ASCII and non-UTF-8 bytes, maximal lengths."""
    from vmon.ref import tls as ref  # pylint: disable=import-outside-toplevel
    names = [b'', b'.', b'..', b'a', b'a.', b'.a', b'a..b', b'www..example.com', b'www.example.com.', b'a' * 63 + b'.com',
             b'a' * 64 + b'.com', b'a.' * 126 + b'a', b'a.' * 127 + b'a', b'xn--bcher-kva.example', b'XN--BCHER-KVA.example',
             b'xn--a.example', b'xn--.example', b'xn--zz-.example', b'xn--' + b'a' * 59 + b'.example', b'xn--80ak6aa92e.com',
             b'b\xc3\xbccher.example', b'\xff\xfe.example', b'exa mple.com', b'example.com\x00', b'-a.example', b'a-.example',
             b'1.2.3.4', b'*.example.com', b'EXAMPLE.COM', b'a' * 255]
    inputs = []
    for name in names:
        data = ref.u16(len(name) + 3) + ref.u8(0) + ref.u16(len(name)) + name
        extension = ref.extension(0, data)
        inputs.append(('cryptoparser.tls.extension:TlsExtensionServerNameClient', extension.hex()))
        hello = ref.client_hello(0x0303, b'\x22' * 32, b'', [0xc02f, 0x009e], [0], [extension, ref.extension(23, b'')])
        inputs.append(('cryptoparser.tls.subprotocol:TlsHandshakeClientHello', hello.hex()))
    return inputs


def date_inputs():
    """HTTP dates at the ends of the calendar, with and without zone designators, alone and inside a header block (whose list
    parser composes every parsed field again for its size bookkeeping)."""
    dates = ['Fri, 31 Dec 9999 23:59:59', 'Mon, 01 Jan 0001 00:00:00', 'Fri, 31 Dec 9999 23:59:59 GMT', 'Mon, 01 Jan 0001 00:00:00 GMT',
             'Fri, 31 Dec 9999 23:59:59 -0100', 'Mon, 01 Jan 0001 00:00:00 +0100', 'Fri, 31 Dec 9999 23:59:59 +1400',
             'Mon, 01 Jan 0001 00:00:00 -1200', 'Thu, 01 Jan 1970 00:00:00', 'Sat, 29 Feb 2025 00:00:00 GMT', 'Tue, 19 Jan 2038 03:14:08 GMT',
             'Sun, 06 Nov 1994 08:49:37 GMT', 'Sunday, 06-Nov-94 08:49:37 GMT', 'Sun Nov  6 08:49:37 1994', '0', '-1', '99999999999999999999',
             'Fri, 31 Dec 10000 00:00:00 GMT', 'Thu, 01 Jan 0000 00:00:00 GMT']
    inputs = []
    for date in dates:
        inputs.append(('cryptoparser.common.field:FieldValueDateTime', date.encode('ascii').hex()))
        for field in ('Date', 'Expires', 'Last-Modified'):
            inputs.append(('cryptoparser.httpx.header:HttpHeaderFields',
                           ('Server: x\r\n%s: %s\r\n\r\n' % (field, date)).encode('ascii').hex()))
        inputs.append(('cryptoparser.httpx.header:HttpHeaderFieldValueSetCookie', ('a=b; Expires=%s' % date).encode('ascii').hex()))
    return inputs


class Check(core.CheckBase):
    ID = 'C02'
    TECHNIQUE = 'runtime exception-type monitor on the parse entry points under mutation fuzzing of a seed corpus'
    RULE = ('inputs are mutants (truncation at every offset, bit flips, byte substitution, length-field corruption in '
            'every 1-4 byte window, splices, random, text/charset mutations) of every valid encoding in the seed corpus, '
            'fed to parse_immutable / parse_exact_size / parse_mutable of the class; distinct = SHA-1 of (class, input); '
            'non-trivial = the call went beyond the first primitive, i.e. was accepted or failed after >= 1 nested '
            'parse, or the input is a mutation of a valid encoding rather than pure random')
    SHARDS = {'quick': 8, 'thorough': 16}
    ASSUMPTIONS = ('InvalidDataLength (base of NotEnoughData/TooMuchData) counts as documented',
                   'abstract bases whose _parse is the NotImplementedError stub are not parse entry points')

    def setup(self):
        self.allowed = pipeline.parse_errors()
        self.corpus = pipeline.corpus_by_class()
        self.all_seeds = [data for seeds in self.corpus.values() for data in seeds]
        self.targets = self._targets()
        self.monitor = pipeline.EntryMonitor()
        self.monitor.attach()

    def _targets(self):
        targets = {}
        everything = inventory.parsable_classes(concrete_only=False)
        for name, cls in everything.items():
            if name in self.corpus:
                targets[name] = cls
                continue
            parse = getattr(cls, '_parse', None)
            if parse is None or getattr(parse, '__isabstractmethod__', False):
                continue
            module = name.split(':')[0]
            if module in ('cryptoparser.common.base', 'cryptoparser.common.parse'):
                continue
            if name.split(':')[1].endswith('Base'):
                continue
            if any(sub.__module__.startswith('cryptoparser.') for sub in cls.__subclasses__()):
                continue    # seedless and subclassed: a base class, not a wire type of its own
            import inspect  # pylint: disable=import-outside-toplevel
            if inspect.isabstract(cls) and name not in inventory.enum_factories():
                continue
            targets[name] = cls
        return targets

    def cases(self):
        index = 0
        for name in sorted(self.targets):
            seeds = self.corpus.get(name, [])
            if not seeds:
                index += 1
                if self.mine(index):
                    yield {'kind': 'seedless', 'cls': name}
                continue
            for seed_index in range(len(seeds)):
                index += 1
                if self.mine(index):
                    yield {'kind': 'seed', 'cls': name, 'seed_index': seed_index, 'of': len(seeds)}
        for cls_name, hex_input in TARGETED + host_name_inputs() + date_inputs():
            index += 1
            if self.mine(index) and cls_name in self.targets:
                yield {'kind': 'input', 'cls': cls_name, 'hex': hex_input, 'entry': 'parse_immutable'}

    def judge(self, case):
        if case['kind'] == 'input':
            return self.judge_input(case['cls'], bytes.fromhex(case['hex']), case.get('entry', 'parse_immutable'),
                                    ('replay', ))
        cls_name = case['cls']
        rng = random.Random('C02/%s/%s/%s' % (self.seed, cls_name, case.get('seed_index')))
        found = []
        per_class = BUDGET[self.tier]
        if case['kind'] == 'seed':
            data = self.corpus[cls_name][case['seed_index']]
            budget = max(24, per_class // case['of'])
            others = self.corpus[cls_name] + [rng.choice(self.all_seeds) for _ in range(4)]
            stream = mutate.mutants(data, others, rng, budget)
        else:
            def seedless():
                for _ in range(per_class // 2):
                    yield ('foreign-seed', ), rng.choice(self.all_seeds)
                for item in mutate.pure_random(rng, per_class // 2):
                    yield item
            stream = seedless()
        if case['kind'] == 'seed':
            stream = list(stream) + list(self.consistent_truncations(cls_name, data))
        for number, (recipe, mutant) in enumerate(stream):
            entries = ['parse_immutable']
            if number % 3 == 0:
                entries += ['parse_exact_size', 'parse_mutable']
            for entry in entries:
                found.extend(self.judge_input(cls_name, mutant, entry, recipe))
        return found

    @staticmethod
    def consistent_truncations(cls_name, data):
        """A framed message cut at every offset with the frame length corrected, so that the outer framing stays consistent
        and the cut lands inside the body parser (TLS handshake: type + uint24 length; TLS record: 5-byte header with a
        uint16 length; SSH binary packet: uint32 packet_length and padding_length)."""
        short = cls_name.split(':')[1]
        cuts = lambda size: sorted(set(list(range(min(size, 160))) + list(range(0, size, max(1, size // 96))) +
                                        list(range(max(0, size - 24), size))))
        if short.startswith('TlsHandshake') and len(data) >= 4 and int.from_bytes(data[1:4], 'big') == len(data) - 4:
            for cut in cuts(len(data) - 4):
                yield ('consistent-truncation', cut), data[:1] + cut.to_bytes(3, 'big') + data[4:4 + cut]
        elif short == 'TlsRecord' and len(data) >= 5 and int.from_bytes(data[3:5], 'big') == len(data) - 5:
            for cut in cuts(len(data) - 5):
                yield ('consistent-truncation', cut), data[:3] + cut.to_bytes(2, 'big') + data[5:5 + cut]
        elif short.startswith('TlsExtension') and len(data) >= 4 and int.from_bytes(data[2:4], 'big') == len(data) - 4:
            for cut in cuts(len(data) - 4):
                yield ('consistent-truncation', cut), data[:2] + cut.to_bytes(2, 'big') + data[4:4 + cut]

    def judge_input(self, cls_name, data, entry, recipe):
        cls = self.targets.get(cls_name) or inventory.resolve(cls_name)
        calls_before = self.monitor.calls
        outcome = 'accepted'
        violation = None
        self.monitor.findings = []
        try:
            if entry == 'parse_mutable':
                getattr(cls, entry)(bytearray(data))
            else:
                getattr(cls, entry)(data)
        except self.allowed as e:
            outcome = type(e).__name__
        except RecursionError as e:
            outcome = 'leak'
            violation = ('RecursionError', 'recursion', '-')
        except Exception as e:  # pylint: disable=broad-except
            outcome = 'leak'
            violation = pipeline.exception_signature(e)
        nested = self.monitor.calls - calls_before - 1
        self.stats['outcome_' + outcome] += 1
        self.stats['entry_' + entry] += 1
        self.stats['mutator_' + str(recipe[0])] += 1
        nontrivial = outcome == 'accepted' or nested > 0 or recipe[0] not in ('random', 'fill', 'ascii-random')
        if entry == 'parse_immutable':
            self.observe((cls_name, data), nontrivial,
                         {'cls': cls_name, 'hex': data[:64].hex(), 'len': len(data), 'recipe': list(map(str, recipe)),
                          'outcome': outcome})
            self.notes.setdefault('classes', set()).add(cls_name)
        else:
            self.evaluations += 1
        if violation is None:
            return []
        exc_type, raising, owner = violation
        case = {'kind': 'input', 'cls': cls_name, 'hex': data.hex(), 'entry': entry}
        return [self.violation('leak|%s|%s|%s' % (raising, owner, exc_type),
                               '%s.%s(%s%s) raised %s in %s' % (cls_name.split(':')[1], entry, data[:40].hex(),
                                                               '..' if len(data) > 40 else '', exc_type, raising), case)]

    def floors(self):
        return {'outcome_accepted': 500, 'outcome_InvalidValue': 500, 'outcome_NotEnoughData': 500,
                'classes_reached': 300, 'evaluations': 20000}

    def finish(self):
        classes = self.notes.get('classes', set())
        return {'classes_targeted': sorted(self.targets), 'classes_reached': sorted(classes)}
