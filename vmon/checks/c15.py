# -*- coding: utf-8 -*-
"""C15 - JA3 of a client hello equals the published algorithm applied to its bytes.

Differential monitor: the hello is encoded by the independent reference encoder (vmon/ref/tls.py), parsed by
the real library, and ja3() of the parsed message is compared with the published definition evaluated on
the same abstract value the wire bytes were made from; also after compose -> parse.
"""
import random

from vmon import roundtrip, core, structural
from vmon.ref import tls as ref


class Check(core.CheckBase):
    ID = 'C15'
    TECHNIQUE = 'runtime differential monitor: ja3() of the parsed hello vs. the published JA3 definition on reference-encoded wire bytes'
    RULE = ('one case = one generated client hello (any version; 1-200 known/unknown/GREASE suites, SCSV markers at the end or '
            'at random positions; 0..all supported extensions in random order incl. GREASE and unknown types; with or '
            'without supported-groups / point-format extensions) encoded by the reference encoder; distinct = SHA-1 of the '
            'wire bytes; non-trivial = the library accepted the hello so that ja3() ran')
    SHARDS = {'quick': 8, 'thorough': 16}
    BLOCKS = {'quick': 64, 'thorough': 2400}
    PER_BLOCK = 40
    ASSUMPTIONS = ('JA3 = decimal version, cipher suites, extension types, groups, point formats in wire order, "-" and "," '
                   'separators, GREASE (RFC 8701 values) ignored in every section, as published by Salesforce', )

    def setup(self):
        from vmon.gen import tls  # pylint: disable=import-outside-toplevel
        import cryptoparser.tls.subprotocol as sub  # pylint: disable=import-outside-toplevel
        self.gen = tls
        self.hello = sub.TlsHandshakeClientHello

    def cases(self):
        for block in range(self.BLOCKS[self.tier]):
            if self.mine(block):
                yield {'kind': 'block', 'rng': 'C15/%s/%d' % (self.seed, block)}

    def judge(self, case):
        rng = random.Random(case['rng'])
        found = []
        wanted = case.get('index')
        for index in range(self.PER_BLOCK):
            maker = self.gen.client_hello_scsv_anywhere if index % 3 == 0 else self.gen.client_hello
            try:
                pair = maker(rng)
            except Exception as e:  # pylint: disable=broad-except
                # the public constructors refuse values the specification allows: such a hello cannot be built, parsed or fingerprinted
                if wanted is None or index == wanted:
                    found.append(self.violation(roundtrip.exc_key('construct-raises', e),
                                                'building a specification-conformant client hello raised %r' % e, dict(case, index=index)))
                continue
            if wanted is not None and index != wanted:
                continue
            found.extend(self.judge_hello(pair, dict(case, index=index)))
        dedup = {}
        for violation in found:
            dedup.setdefault(violation.key, violation)
        return list(dedup.values())

    ONE_BYTE_GREASE = (0x0b, 0x2a, 0x49, 0x68, 0x87, 0xa6, 0xc5, 0xe4)

    def classify(self, got, extra):
        """Maps a mismatch to the combination of known deviation mechanisms that explains it exactly, if any."""
        version, types = extra['version'], [code for code, _ in extra['extensions']]
        groups, formats = extra['groups'], extra['point_formats']
        wire_suites = extra['suites'] + extra['scsv']
        for keep_grease in (False, True):
            for drop_scsv in (False, True):
                for drop_format_grease in (False, True):
                    if not (keep_grease or drop_scsv or drop_format_grease):
                        continue
                    suites = [s for s in wire_suites if not (drop_scsv and s in (0x00ff, 0x5600))]
                    shown_formats = [f for f in (formats or []) if not (drop_format_grease and f in self.ONE_BYTE_GREASE)]
                    parts = ref.ja3(version, suites, types, groups, shown_formats).split(',')
                    if keep_grease:
                        parts[1] = '-'.join(str(s) for s in suites)
                    if ','.join(parts) == got:
                        names = []
                        if keep_grease and any(s in ref.GREASE for s in extra['suites']):
                            names.append('grease-cipher-suite-kept')
                        if drop_scsv and extra['scsv']:
                            names.append('scsv-omitted')
                        if drop_format_grease and any(f in self.ONE_BYTE_GREASE for f in (formats or [])):
                            names.append('one-byte-grease-point-format-dropped')
                        if names:
                            return names
        return None

    def judge_hello(self, pair, case):
        found = []
        extra = pair.extra
        self.stats['hellos'] += 1
        try:
            parsed = self.hello.parse_exact_size(pair.wire)
        except Exception as e:  # pylint: disable=broad-except
            self.stats['hello_rejected'] += 1
            self.evaluations += 1
            # a conformant hello (written by the reference encoder) that cannot be parsed has no fingerprint at all
            return [self.violation('hello-rejected|%s' % type(e).__name__,
                                   'a specification-conformant client hello (%s..) is refused, so no JA3 exists: %r' % (
                                       pair.wire[:24].hex(), e), case)]
        self.observe(pair.wire, True, {'wire': pair.wire[:60].hex(), 'len': len(pair.wire), 'expected_ja3': extra['ja3'][:120]})
        try:
            got = parsed.ja3()
        except Exception as e:  # pylint: disable=broad-except
            return [self.violation('ja3-raises|%s' % type(e).__name__, 'ja3() raised %r' % e, case)]
        self.stats['ja3_compared'] += 1
        if got != extra['ja3']:
            mechanisms = self.classify(got, extra)
            if mechanisms is None:
                expected_parts, got_parts = extra['ja3'].split(','), got.split(',')
                section = next((name for name, a, b in zip(('version', 'cipher-suites', 'extensions', 'groups', 'point-formats'),
                                                           expected_parts, got_parts + [''] * 5) if a != b), 'shape')
                found.append(self.violation('ja3-mismatch|%s' % section,
                                            'ja3() = %s..., the published algorithm gives %s...' % (got[:150], extra['ja3'][:150]),
                                            case))
            else:
                for mechanism in mechanisms:
                    found.append(self.violation('ja3-deviation|%s' % mechanism,
                                                'ja3() = %s..., the published algorithm gives %s...' % (got[:120], extra['ja3'][:120]),
                                                case))
        # function of the message alone: unchanged by compose -> parse, and by repeated calls
        try:
            again = self.hello.parse_exact_size(bytes(parsed.compose()))
            if again.ja3() != got:
                found.append(self.violation('ja3-unstable|roundtrip', 'ja3() changes after compose -> parse', case))
            if parsed.ja3() != got:
                found.append(self.violation('ja3-unstable|repeat', 'ja3() changes between two calls', case))
        except Exception:  # pylint: disable=broad-except
            pass
        return found

    def floors(self):
        return {'hellos': 1500, 'ja3_compared': 1200}
