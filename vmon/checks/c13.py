# -*- coding: utf-8 -*-
"""C13 - observers are pure; objects never share state with inputs or each other.

Purity monitor (deep state snapshot before/after every observer call, in random interleavings, including
calls that fail at a size bound), buffer-aliasing monitor (identity walk + post-parse buffer mutation),
shared-default monitor (identity walk over two default-constructed instances, then a behavioural witness).
"""
import copy
import json
import random

import attr

from vmon import bank, core, inventory, pipeline, structural

OBSERVERS = ('compose', 'ja3', 'hassh', 'hassh_server', 'fingerprints', 'key_bytes', 'host_key_asdict', 'key_tag',
             'as_json', 'as_markdown', '_asdict', '__str__', '__repr__', 'json.dumps')
PER_CLASS = {'quick': 3, 'thorough': 120}


def observers_of(obj):
    names = []
    for name in OBSERVERS:
        if name == 'json.dumps':
            names.append(name)
        elif hasattr(type(obj), name):
            names.append(name)
    return names


def call_observer(obj, name):
    if name == 'json.dumps':
        return json.dumps(obj)
    member = getattr(type(obj), name)
    if isinstance(member, property):
        return getattr(obj, name)
    return getattr(obj, name)()


def class_state(obj):
    """Bindings of the PUBLIC plain attributes of the library classes of the object: the documented class-level settings
    (text encoder hook, tables) that an observer has no business rebinding or shadowing. Private names (a class is free to keep
    a cache of its own) and growth inside containers are deliberately not part of it - they are not what the property is about."""
    state = []
    for klass in type(obj).__mro__:
        if not getattr(klass, '__module__', '').startswith('cryptoparser'):
            continue
        for name, value in sorted(vars(klass).items()):
            if name.startswith('_') or isinstance(value, (type, property, classmethod, staticmethod)) or hasattr(value, '__get__'):
                continue    # private names, methods, descriptors, nested classes; callable *instances* (encoder hooks) count
            state.append((klass.__name__, name, id(value)))
    return state


def has_non_string_keys(value, depth=0):
    """Does rendering this value meet a dictionary with keys that are not text (the path that swaps the text encoder)?"""
    if depth > 4:
        return False
    if hasattr(value, '_asdict'):
        try:
            value = value._asdict()  # pylint: disable=protected-access
        except Exception:  # pylint: disable=broad-except
            return False
    if isinstance(value, dict):
        return any(not isinstance(key, str) for key in value) or any(has_non_string_keys(item, depth + 1) for item in value.values())
    if isinstance(value, (list, tuple)) or (hasattr(value, '__iter__') and hasattr(value, '_items')):
        return any(has_non_string_keys(item, depth + 1) for item in list(value)[:8])
    return False


class MarkingEncoder(object):  # pylint: disable=too-few-public-methods
    """A caller's output hook (Serializable.post_text_encoder is the documented customisation point)."""

    def __call__(self, obj, level):
        return False, '<<%s>>' % (obj if isinstance(obj, str) else str(obj))


def result_state(value):
    return structural.deep_state(value, strict_types=False)


class Check(core.CheckBase):
    ID = 'C13'
    TECHNIQUE = 'runtime purity monitor (state snapshots around observers), buffer-aliasing and shared-default identity walks'
    RULE = ('purity: one case = one library object (parsed from the seed corpus, nested, or a bound-touching client hello) '
            'with a random interleaving of all its observers repeated 2-5 times; aliasing: one case = one corpus input '
            'parsed from a bytearray that is then overwritten/extended/cleared; defaults: one case = one class built '
            'twice from defaults. distinct = (kind, class, input); non-trivial = at least two different observers ran / '
            'the parse was accepted / the class has at least one defaulted field')
    SHARDS = {'quick': 8, 'thorough': 16}
    ASSUMPTIONS = ('objects of third-party classes (datetime, asn1crypto, cryptodatahub keys, urllib3 URLs) are leaves compared '
                   'through a public projection; their private lazy caches are not state of the library object', )

    def setup(self):
        self.allowed = pipeline.parse_errors()
        self.bank = bank.objects_by_class()
        self.corpus = pipeline.load_corpus()
        self.classes = inventory.parsable_classes(concrete_only=False)

    # ------------------------------------------------------------------ workload
    def cases(self):
        index = 0
        for name in sorted(self.bank):
            entries = self.bank[name]
            picks = list(range(len(entries)))
            self.plan_rng.shuffle(picks)
            for number in picks[:PER_CLASS[self.tier]]:
                index += 1
                if self.mine(index):
                    yield {'kind': 'purity', 'cls': name, 'number': number}
        for headroom in (0, 2, 4, 6):
            for flags in ((True, True), (True, False), (False, True), (False, False)):
                index += 1
                if self.mine(index):
                    yield {'kind': 'bound-hello', 'headroom': headroom, 'fallback': flags[0], 'renegotiation': flags[1]}
        for number, (name, data) in enumerate(self.corpus):
            if self.tier == 'quick' and number % 2:
                continue
            index += 1
            if self.mine(index):
                yield {'kind': 'aliasing', 'cls': name, 'hex': data.hex()}
        for name in sorted(self.classes):
            index += 1
            if self.mine(index):
                yield {'kind': 'defaults', 'cls': name}
        for family in ('tls', 'ssh', 'dns', 'opp'):
            for block in range(2 if self.tier == 'quick' else 24):
                index += 1
                if self.mine(index):
                    yield {'kind': 'generated', 'family': family, 'block': block}

    def judge(self, case):
        return getattr(self, 'judge_' + case['kind'].replace('-', '_'))(case)

    # ------------------------------------------------------------------ (a) purity
    def judge_purity(self, case):
        entries = self.bank.get(case['cls'], [])
        if case['number'] >= len(entries):
            return []
        _, source_cls, source_data = entries[case['number']]
        # re-create a private copy of the object: parse the source again and find the same position in the bank walk
        obj = self._fresh(case['cls'], source_cls, source_data, case['number'])
        if obj is None:
            return []
        found = self.purity(obj, case, 'C13/%s/%s/%s' % (self.seed, case['cls'], case['number']))
        if not found and hasattr(obj, 'as_markdown') and has_non_string_keys(obj):
            # the same with a caller's text encoder installed on the object's own class: rendering must neither drop it nor
            # spread it to other classes (observed through the class-state snapshot of the whole MRO)
            owner = type(obj)
            had_own = 'post_text_encoder' in vars(owner)
            previous = vars(owner).get('post_text_encoder')
            owner.post_text_encoder = MarkingEncoder()
            self.stats['encoder_hook_objects'] += 1
            try:
                found = self.purity(obj, dict(case, hook=True), 'C13/hook/%s/%s/%s' % (self.seed, case['cls'], case['number']))
            finally:
                if had_own:
                    owner.post_text_encoder = previous
                else:
                    try:
                        del owner.post_text_encoder
                    except AttributeError:
                        pass
        if not found:
            found = self.purity_after_owner_edit(obj, case)
        return found

    def purity_after_owner_edit(self, obj, case):
        """The owner changes an item that sits inside a vector of the object (so that its encoded size changes) and only then are
        the observers called: they still must not change the object - a successful compose() is no licence to rewrite bookkeeping."""
        import copy  # pylint: disable=import-outside-toplevel
        from cryptoparser.common.base import ArrayBase  # pylint: disable=import-outside-toplevel
        from vmon.checks import c12  # pylint: disable=import-outside-toplevel
        try:
            edited = copy.deepcopy(obj)
        except Exception:  # pylint: disable=broad-except
            return []
        for target in list(structural.mutable_ids(edited).values()):
            if isinstance(target, ArrayBase) and len(target) and hasattr(target[0], '__dict__'):
                try:
                    changed = c12.grow(target._items[0])  # pylint: disable=protected-access
                except Exception:  # pylint: disable=broad-except
                    changed = False
                if changed:
                    self.stats['owner_edited_objects'] += 1
                    return self.purity(edited, dict(case, owner_edit=True), 'C13/owner-edit/%s/%s/%s' % (
                        self.seed, case.get('cls'), case.get('number')))
        return []

    def judge_generated(self, case):
        """Constructed objects (vmon/gen: field combinations no test vector has - certificate chains with issuers, valued
        options, unknown code points, several flags) and the library objects nested in them."""
        import copy  # pylint: disable=import-outside-toplevel
        import importlib  # pylint: disable=import-outside-toplevel
        from vmon import objgen  # pylint: disable=import-outside-toplevel
        rng = random.Random('C13/gen/%s/%s/%s' % (self.seed, case['family'], case['block']))
        found = {}
        for number, pair in enumerate(importlib.import_module('vmon.gen.' + case['family']).generate(rng, 30)):
            root = copy.deepcopy(pair.obj)
            for position, obj in enumerate([root] + objgen.sub_objects(root, limit=4)):
                self.stats['constructed_objects'] += 1
                for violation in self.purity(obj, dict(case, number=number, position=position),
                                             'C13/gen/%s/%s/%s/%s/%s' % (self.seed, case['family'], case['block'], number, position)):
                    found.setdefault(violation.key, violation)
        return list(found.values())

    def _fresh(self, name, source_cls, source_data, number):
        from vmon import objgen  # pylint: disable=import-outside-toplevel
        cls = self.classes.get(source_cls)
        if cls is None:
            return None
        try:
            root, _ = cls.parse_immutable(source_data)
        except Exception:  # pylint: disable=broad-except
            return None
        position = 0
        for entry_number, (_, other_cls, other_data) in enumerate(self.bank[name]):
            if other_cls == source_cls and other_data == source_data:
                if entry_number == number:
                    break
                position += 1
        candidates = [item for item in [root] + objgen.sub_objects(root, limit=200)
                      if inventory.class_name(type(item)) == name]
        if position < len(candidates):
            return candidates[position]
        return candidates[0] if candidates else None

    def purity(self, obj, case, rng_key):
        rng = random.Random(rng_key)
        names = observers_of(obj)
        found = []
        before = structural.deep_state(obj, strict_types=True)
        classes_before = class_state(obj)
        first_results = {}
        schedule = []
        for _ in range(rng.randrange(2, 6)):
            round_names = names[:]
            rng.shuffle(round_names)
            schedule.extend(round_names)
        ran = set()
        cls_name = type(obj).__name__
        for name in schedule:
            self.stats['observer_calls'] += 1
            outcome = None
            try:
                outcome = ('ok', result_state(call_observer(obj, name)))
            except Exception as e:  # pylint: disable=broad-except
                outcome = ('raised', type(e).__name__)
                self.stats['observer_calls_failed'] += 1
            ran.add(name)
            classes_after = class_state(obj)
            if classes_after != classes_before:
                changed = sorted(set(entry[:2] for entry in set(classes_after) ^ set(classes_before)))
                found.append(self.violation(
                    'class-state-changed|%s|%s' % (name, '+'.join('%s.%s' % entry for entry in changed[:3])),
                    '%s.%s() left class-level state behind: %s (what later objects render or compose to now depends on this call)' % (
                        cls_name, name, ', '.join('%s.%s' % entry for entry in changed[:5])), case))
                break
            after = structural.deep_state(obj, strict_types=True)
            if after != before:
                where = structural.diff_path(before, after)
                found.append(self.violation(
                    'impure|%s|%s|%s' % (name, cls_name if '.' not in where else where.split('.')[0] or cls_name,
                                         where[where.index('.'):] if '.' in where else where),
                    '%s.%s() %s and changed the object at %s' % (
                        cls_name, name, 'returned' if outcome[0] == 'ok' else 'raised ' + outcome[1], where), case))
                before = after
                break
            if name not in first_results:
                first_results[name] = outcome
            elif first_results[name] != outcome:
                found.append(self.violation(
                    'unstable-result|%s|%s' % (name, cls_name),
                    '%s.%s() returned different results on repeated calls of an unchanged object' % (cls_name, name), case))
                break
        self.observe(('purity', case.get('cls'), case.get('number'), case.get('headroom'), case.get('fallback'),
                      case.get('renegotiation')), len(ran) >= 2,
                     {'kind': case['kind'], 'cls': cls_name, 'observers': sorted(ran), 'calls': len(schedule)})
        self.notes.setdefault('purity_classes', set()).add(cls_name)
        return found

    def judge_bound_hello(self, case):
        import cryptoparser.tls.subprotocol as sub  # pylint: disable=import-outside-toplevel
        from cryptodatahub.tls.algorithm import TlsCipherSuite  # pylint: disable=import-outside-toplevel
        param = sub.TlsCipherSuiteVector.get_param()
        count = (param.max_byte_num - case['headroom']) // 2
        suites = list(TlsCipherSuite)
        try:
            hello = sub.TlsHandshakeClientHello(
                cipher_suites=[suites[i % len(suites)] for i in range(count)],
                fallback_scsv=case['fallback'], empty_renegotiation_info_scsv=case['renegotiation'])
        except Exception:  # pylint: disable=broad-except
            return []
        self.stats['bound_touching_objects'] += 1
        return self.purity(hello, case, 'C13/bound/%s/%s' % (self.seed, sorted(case.items())))

    # ------------------------------------------------------------------ (b) aliasing
    def judge_aliasing(self, case):
        name = case['cls']
        cls = self.classes.get(name)
        if cls is None:
            return []
        data = bytes.fromhex(case['hex'])
        found = []
        for entry in ('parse_immutable', 'parse_mutable', 'parse_exact_size'):
            buffer = bytearray(data)
            try:
                result = getattr(cls, entry)(buffer)
            except Exception:  # pylint: disable=broad-except
                continue
            obj = result[0] if entry == 'parse_immutable' else result
            self.stats['aliasing_parses'] += 1
            before = structural.deep_state(obj, strict_types=True)
            reachable = structural.mutable_ids(obj)
            if id(buffer) in reachable:
                found.append(self.violation('aliases-buffer|%s' % type(obj).__name__,
                                            '%s.%s keeps a reference to the caller\'s bytearray' % (name.split(':')[1], entry),
                                            case))
                continue
            for index in range(len(buffer)):
                buffer[index] = 0xaa
            buffer.extend(b'\x55' * 16)
            del buffer[:]
            after = structural.deep_state(obj, strict_types=True)
            if after != before:
                found.append(self.violation(
                    'aliases-buffer|%s' % type(obj).__name__,
                    'overwriting/clearing the buffer after %s.%s changed the parsed object at %s' % (
                        name.split(':')[1], entry, structural.diff_path(before, after)), case))
        found.extend(self.judge_independent_parses(cls, name, data, case))
        self.observe(('aliasing', name, data), True, {'kind': 'aliasing', 'cls': name, 'hex': data[:32].hex()})
        return found

    def judge_independent_parses(self, cls, name, data, case):
        """Two parses of the same bytes give two objects that share no mutable state: whatever the owner of the first does to
        it in place (every mutable container reachable from it is edited), the second one and a third, later one stay as parsed."""
        from cryptoparser.common.base import ArrayBase  # pylint: disable=import-outside-toplevel
        found = []
        try:
            first, _ = cls.parse_immutable(bytes(data))
            second, _ = cls.parse_immutable(bytes(data))
        except Exception:  # pylint: disable=broad-except
            return found
        self.stats['independent_parse_pairs'] += 1
        expected = structural.deep_state(second, strict_types=True)
        shared = set(structural.mutable_ids(first)) & set(structural.mutable_ids(second))
        if shared:
            self.stats['parse_pairs_sharing_objects'] += 1
        edited = 0
        for target in list(structural.mutable_ids(first).values()):
            if self._edit_in_place(target):
                edited += 1
        self.stats['in_place_edits_of_parsed_objects'] += edited
        try:
            third, _ = cls.parse_immutable(bytes(data))
        except Exception as e:  # pylint: disable=broad-except
            return [self.violation('parse-depends-on-history|%s' % type(first).__name__,
                                   'after an earlier parsed %s was edited in place, parsing the same bytes again raises %r' % (
                                       name.split(':')[1], e), case)]
        for label, other in (('an object parsed earlier', second), ('a later parse of the same bytes', third)):
            state = structural.deep_state(other, strict_types=True)
            if state != expected:
                found.append(self.violation(
                    'shared-between-parses|%s' % (structural.diff_locus(expected, state)[0] or type(first).__name__).split('.')[-1],
                    'editing one parsed %s in place changed %s at %s' % (
                        name.split(':')[1], label, structural.diff_path(expected, state)), case))
                break
        return found

    # ------------------------------------------------------------------ (c) shared defaults
    def _construct(self, cls, template):
        """Build cls from its required fields only (deep copies of the template's values); defaults untouched."""
        kwargs = {}
        for field in attr.fields(cls):
            if not field.init or field.default is not attr.NOTHING:
                continue
            kwargs[field.name.lstrip('_')] = copy.deepcopy(getattr(template, field.name))
        return cls(**kwargs)

    def judge_defaults(self, case):  # pylint: disable=too-many-locals,too-many-branches
        name = case['cls']
        cls = self.classes[name]
        if not attr.has(cls):
            return self.judge_defaults_plain(case, cls)
        defaulted = [field for field in attr.fields(cls) if field.init and field.default is not attr.NOTHING]
        if not defaulted:
            return []
        template = None
        for obj, _, _ in self.bank.get(name, []):
            if type(obj) is cls:  # pylint: disable=unidiomatic-typecheck
                template = obj
                break
        required = [field for field in attr.fields(cls) if field.init and field.default is attr.NOTHING]
        if required and template is None:
            self.stats['defaults_no_template'] += 1
            return []
        try:
            first = self._construct(cls, template)
            second = self._construct(cls, template)
        except Exception:  # pylint: disable=broad-except
            self.stats['defaults_not_constructible'] += 1
            return []
        self.stats['default_constructed_classes'] += 1
        self.observe(('defaults', name), True, {'kind': 'defaults', 'cls': name,
                                                'defaulted_fields': [f.name for f in defaulted]})
        found = []
        for field in defaulted:
            value_a, value_b = getattr(first, field.name), getattr(second, field.name)
            shared = set(structural.mutable_ids(value_a)) & set(structural.mutable_ids(value_b))
            if not shared:
                continue
            self.stats['shared_default_candidates'] += 1
            # behavioural witness: edit through the first instance, look at the second and at a third, later one
            pristine = self.visible_state(getattr(second, field.name))
            witness = self._edit_in_place(value_a)
            if witness is None:
                continue
            try:
                third = self._construct(cls, template)
            except Exception:  # pylint: disable=broad-except
                third = second
            changed_other = self.visible_state(getattr(second, field.name)) != pristine
            changed_later = self.visible_state(getattr(third, field.name)) != pristine
            if changed_other or changed_later:
                found.append(self.violation(
                    'shared-default|%s.%s' % (structural.owner_of_field(cls, field.name), field.name),
                    'editing %s.%s of one instance in place (%s) changed the same field of %s' % (
                        cls.__name__, field.name, witness,
                        'another instance and of later ones' if changed_other and changed_later else
                        'another instance' if changed_other else 'instances created later'), case))
        return found

    def judge_defaults_plain(self, case, cls):
        """The same for a class that is not an attrs class: parameters of its own __init__ that have a default."""
        import inspect  # pylint: disable=import-outside-toplevel
        init = cls.__dict__.get('__init__')
        if init is None:
            return []
        try:
            parameters = list(inspect.signature(init).parameters.values())[1:]
        except (TypeError, ValueError):
            return []
        parameters = [p for p in parameters if p.kind in (p.POSITIONAL_OR_KEYWORD, p.KEYWORD_ONLY)]
        if not any(p.default is not p.empty for p in parameters):
            return []
        name = case['cls']
        template = next((obj for obj, _, _ in self.bank.get(name, []) if type(obj) is cls), None)  # pylint: disable=unidiomatic-typecheck
        required = [p for p in parameters if p.default is p.empty]
        if required and template is None:
            self.stats['defaults_no_template'] += 1
            return []

        def construct():
            return cls(**{p.name: copy.deepcopy(getattr(template, p.name)) for p in required})
        try:
            first, second = construct(), construct()
        except Exception:  # pylint: disable=broad-except
            self.stats['defaults_not_constructible'] += 1
            return []
        self.stats['default_constructed_classes'] += 1
        self.stats['default_constructed_plain_classes'] += 1
        self.observe(('defaults', name), True, {'kind': 'defaults', 'cls': name,
                                                'defaulted_fields': [p.name for p in parameters if p.default is not p.empty]})
        found = []
        for attribute in sorted(vars(first)):
            if attribute not in vars(second):
                continue
            value_a, value_b = vars(first)[attribute], vars(second)[attribute]
            if not set(structural.mutable_ids(value_a)) & set(structural.mutable_ids(value_b)):
                continue
            self.stats['shared_default_candidates'] += 1
            pristine = self.visible_state(value_b)
            witness = self._edit_in_place(value_a)
            if witness is None:
                continue
            try:
                third = construct()
            except Exception:  # pylint: disable=broad-except
                third = second
            changed_other = self.visible_state(vars(second)[attribute]) != pristine
            changed_later = self.visible_state(vars(third).get(attribute)) != pristine
            if changed_other or changed_later:
                found.append(self.violation(
                    'shared-default|%s.%s' % (cls.__name__, attribute.lstrip('_')),
                    'editing %s.%s of one instance in place (%s) changed the same attribute of %s' % (
                        cls.__name__, attribute, witness,
                        'another instance and of later ones' if changed_other and changed_later else
                        'another instance' if changed_other else 'instances created later'), case))
        return found

    @staticmethod
    def visible_state(value):
        """What a caller sees of a field value: its strict state and, for vectors, the items it iterates over
        and the bytes it composes (private bookkeeping such as a cached size may lag behind shared storage)."""
        from cryptoparser.common.base import ArrayBase  # pylint: disable=import-outside-toplevel
        state = [structural.deep_state(value, strict_types=True)]
        if isinstance(value, ArrayBase):
            state.append(structural.deep_state(list(value), strict_types=True))
        return state

    def _items_for(self, vector):
        """Items an empty vector of this type may take: bank objects of its item class (or of any class the bank
        holds when the parameter names a factory function), members of its enumeration."""
        import enum  # pylint: disable=import-outside-toplevel
        try:
            item_class = getattr(vector.get_param(), 'item_class', None)
        except Exception:  # pylint: disable=broad-except
            return []
        if isinstance(item_class, type) and issubclass(item_class, enum.Enum):
            return list(item_class)[:2]
        fallback_class = getattr(vector.get_param(), 'fallback_class', None)
        found, others = [], []
        for name in sorted(self.bank):
            for obj, _, _ in self.bank[name][:1]:
                matches = any(isinstance(kind, type) and isinstance(obj, kind) for kind in (item_class, fallback_class))
                (found if matches else others).append(obj)
        # variant item classes are never instantiated themselves: let the vector's own validation decide
        return [copy.deepcopy(obj) for obj in found[:40] + others]

    def _edit_in_place(self, value):
        """Mutate `value` through its own public interface; returns a description or None."""
        from cryptoparser.common.base import ArrayBase  # pylint: disable=import-outside-toplevel
        try:
            if isinstance(value, bytearray):
                value.extend(b'\xee\xee')
                return 'bytearray.extend'
            if isinstance(value, list):
                value.append('verif-sentinel')
                return 'list.append'
            if isinstance(value, dict):
                value['verif-sentinel'] = 1
                return 'dict[key] = value'
            if isinstance(value, set):
                value.add('verif-sentinel')
                return 'set.add'
            if isinstance(value, ArrayBase):
                items = list(value)
                if items:
                    value.append(items[0])
                    return 'vector.append'
                for candidate in [0, 1] + self._items_for(value):
                    try:
                        value.append(candidate)
                        return 'vector.append'
                    except Exception:  # pylint: disable=broad-except
                        continue
                self.stats['shared_default_not_editable'] += 1
                return None
            if attr.has(type(value)):
                for field in attr.fields(type(value)):
                    inner = getattr(value, field.name, None)
                    described = self._edit_in_place(inner) if not isinstance(inner, (int, str, bytes, type(None))) else None
                    if described:
                        return '%s.%s' % (field.name, described)
                for field in attr.fields(type(value)):
                    inner = getattr(value, field.name, None)
                    if isinstance(inner, bool):
                        object.__setattr__(value, field.name, not inner)
                        return 'attribute assignment %s = not %s' % (field.name, field.name)
                    if isinstance(inner, int):
                        object.__setattr__(value, field.name, inner + 1)
                        return 'attribute assignment %s += 1' % field.name
        except Exception:  # pylint: disable=broad-except
            return None
        return None

    def floors(self):
        return {'observer_calls': 5000, 'aliasing_parses': 800, 'default_constructed_classes': 35,
                'bound_touching_objects': 8, 'purity_classes': 250}

    def finish(self):
        return {'purity_classes': sorted(self.notes.get('purity_classes', set()))}
