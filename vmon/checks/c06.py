# -*- coding: utf-8 -*-
"""C06 - SSL/TLS messages are laid out exactly as the RFCs specify (differential vs. vmon/ref/tls.py)."""
from vmon.checks import differential


class Check(differential.DifferentialCheck):
    ID = 'C06'
    TECHNIQUE = 'runtime differential monitor: library compose/parse vs. an independent RFC encoder on generated TLS values'
    RULE = ('one case = one generated structure (client/server hello, hello retry, certificate, certificate request with and '
            'without signature algorithms, key exchange, status, hello done, alert, CCS, TLS record of every content type, '
            'SSL 2.0 error/client hello/server hello records, every supported extension for client and server, unknown and '
            'GREASE code points) built twice from the same random choices: through the library constructors and through '
            'the reference encoder; distinct = SHA-1 of (class, reference bytes); non-trivial = every case (both '
            'comparisons run)')
    ASSUMPTIONS = ('vmon/ref/tls.py is my reading of RFC 5246/8446/6066/7301/7627/8449/8879/6962/8701/5746/5077 and the SSL 2.0 '
                   'draft; cryptodatahub enums are used as tables of numbers only',
                   'SCSV markers are composed at the end of the cipher-suite list (fallback first); at any position when parsed')

    BLOCKS = {'quick': 100, 'thorough': 8000}

    def generator(self):
        from vmon.gen import tls  # pylint: disable=import-outside-toplevel
        return tls

    def extra_oracles(self, pair, parsed, case):
        """The same encoding reached through the containers a stream parser really uses."""
        import cryptoparser.tls.extension as ext  # pylint: disable=import-outside-toplevel
        import cryptoparser.tls.subprotocol as sub  # pylint: disable=import-outside-toplevel
        from vmon import structural  # pylint: disable=import-outside-toplevel
        from vmon.ref import tls as ref  # pylint: disable=import-outside-toplevel
        found = []
        expected = structural.deep_state(pair.obj)
        if isinstance(pair.obj, sub.TlsHandshakeMessage):
            self.stats['container_parses'] += 1
            try:
                through = sub.TlsHandshakeMessageVariant.parse_exact_size(pair.wire)
                if structural.deep_state(through) != expected:
                    found.append(self.violation('variant-differs|TlsHandshakeMessageVariant|%s' % pair.cls.__name__,
                                                '%s parsed through TlsHandshakeMessageVariant differs' % pair.label, case))
            except Exception as e:  # pylint: disable=broad-except
                found.append(self.violation('variant-rejects|TlsHandshakeMessageVariant|%s|%s' % (pair.cls.__name__, type(e).__name__),
                                            '%s is rejected by TlsHandshakeMessageVariant: %r' % (pair.label, e), case))
        elif pair.label.startswith('extension-'):
            side = pair.label.split('-')[1]
            container = ext.TlsExtensionsClient if side == 'client' else ext.TlsExtensionsServer
            if pair.cls.__name__ == 'TlsExtensionKeyShareReservedClient' and False:
                return found
            self.stats['container_parses'] += 1
            wire = ref.vec('extensions', pair.wire)
            try:
                through = container.parse_exact_size(wire)
                if len(through) != 1 or structural.deep_state(through[0]) != expected:
                    found.append(self.violation('container-differs|%s|%s' % (container.__name__, pair.cls.__name__),
                                                '%s parsed inside %s differs (%s)' % (
                                                    pair.label, container.__name__,
                                                    type(through[0]).__name__ if len(through) else 'empty'), case))
            except Exception as e:  # pylint: disable=broad-except
                found.append(self.violation('container-rejects|%s|%s|%s' % (container.__name__, pair.cls.__name__, type(e).__name__),
                                            '%s is rejected inside %s: %r' % (pair.label, container.__name__, e), case))
        del parsed
        return found
