# -*- coding: utf-8 -*-
"""C10 - every wire code point is decoded faithfully or preserved verbatim.

Code-space monitor. Every coded enumeration is discovered from the live inventory; for every code of
its space the real decoder is executed alone and inside its list container and the result is
compared with a table built from the enum itself (code -> members carrying it).
"""
import enum

from vmon import core, inventory

GREASE_TWO_BYTE = frozenset(0x0a0a + 0x1010 * i for i in range(16))
GREASE_ONE_BYTE = frozenset([0x0b, 0x2a, 0x49, 0x68, 0x87, 0xa6, 0xc5, 0xe4])
CHUNK = 4096

# numbers assigned by the RFCs / IANA registry (RFC 5246, 6066, 7301, 7507, 8446, 8449, 8870, 8879)
RFC_NUMBERS = {
    'TlsContentType': {'CHANGE_CIPHER_SPEC': 20, 'ALERT': 21, 'HANDSHAKE': 22, 'APPLICATION_DATA': 23, 'HEARTBEAT': 24},
    'TlsAlertLevel': {'WARNING': 1, 'FATAL': 2},
    'TlsAlertDescription': {
        'CLOSE_NOTIFY': 0, 'UNEXPECTED_MESSAGE': 10, 'BAD_RECORD_MAC': 20, 'DECRYPTION_FAILED': 21,
        'RECORD_OVERFLOW': 22, 'DECOMPRESSION_FAILURE': 30, 'HANDSHAKE_FAILURE': 40, 'NO_CERTIFICATE': 41,
        'BAD_CERTIFICATE': 42, 'UNSUPPORTED_CERTIFICATE': 43, 'CERTIFICATE_REVOKED': 44, 'CERTIFICATE_EXPIRED': 45,
        'CERTIFICATE_UNKNOWN': 46, 'ILLEGAL_PARAMETER': 47, 'UNKNOWN_CA': 48, 'ACCESS_DENIED': 49, 'DECODE_ERROR': 50,
        'DECRYPT_ERROR': 51, 'EXPORT_RESTRICTION': 60, 'PROTOCOL_VERSION': 70, 'INSUFFICIENT_SECURITY': 71,
        'INTERNAL_ERROR': 80, 'INAPPROPRIATE_FALLBACK': 86, 'USER_CANCELED': 90, 'NO_RENEGOTIATION': 100,
        'MISSING_EXTENSION': 109, 'UNSUPPORTED_EXTENSION': 110, 'CERTIFICATE_UNOBTAINABLE': 111,
        'UNRECOGNIZED_NAME': 112, 'BAD_CERTIFICATE_STATUS_RESPONSE': 113, 'BAD_CERTIFICATE_HASH_VALUE': 114,
        'UNKNOWN_PSK_IDENTITY': 115, 'CERTIFICATE_REQUIRED': 116, 'NO_APPLICATION_PROTOCOL': 120},
    'TlsHandshakeType': {
        'HELLO_REQUEST': 0, 'CLIENT_HELLO': 1, 'SERVER_HELLO': 2, 'HELLO_VERIFY_REQUEST': 3, 'NEW_SESSION_TICKET': 4,
        'END_OF_EARLY_DATA': 5, 'HELLO_RETRY_REQUEST': 6, 'ENCRYPTED_EXTENSIONS': 8, 'CERTIFICATE': 11,
        'SERVER_KEY_EXCHANGE': 12, 'CERTIFICATE_REQUEST': 13, 'SERVER_HELLO_DONE': 14, 'CERTIFICATE_VERIFY': 15,
        'CLIENT_KEY_EXCHANGE': 16, 'FINISHED': 20, 'CERTIFICATE_URL': 21, 'CLIENT_CERTIFICATE_URL': 21,
        'CERTIFICATE_STATUS': 22, 'SUPPLEMENTAL_DATA': 23, 'KEY_UPDATE': 24, 'COMPRESSED_CERTIFICATE': 25,
        'EKT_KEY': 26, 'MESSAGE_HASH': 254},
    'TlsClientCertificateType': {'RSA_SIGN': 1, 'DSS_SIGN': 2, 'RSA_FIXED_DH': 3, 'DSS_FIXED_DH': 4, 'ECDSA_SIGN': 64,
                                 'RSA_FIXED_ECDH': 65, 'ECDSA_FIXED_ECDH': 66, 'GOST_SIGN256': 67, 'GOST_SIGN512': 68},
    'SslMessageType': {'ERROR': 0, 'CLIENT_HELLO': 1, 'CLIENT_MASTER_KEY': 2, 'CLIENT_FINISHED': 3, 'SERVER_HELLO': 4,
                       'SERVER_VERIFY': 5, 'SERVER_FINISHED': 6, 'REQUEST_CERTIFICATE': 7, 'CLIENT_CERTIFICATE': 8},
    'SshMessageCode': {'DISCONNECT': 1, 'IGNORE': 2, 'UNIMPLEMENTED': 3, 'DEBUG': 4, 'SERVICE_REQUEST': 5,
                       'SERVICE_ACCEPT': 6, 'KEXINIT': 20, 'NEWKEYS': 21, 'DH_KEX_INIT': 30, 'DH_KEX_REPLY': 31,
                       'DH_GEX_GROUP': 31, 'DH_GEX_INIT': 32, 'DH_GEX_REPLY': 33, 'DH_GEX_REQUEST': 34},
}
# numbers the protocols themselves assign twice
SHARED_BY_PROTOCOL = {('SshMessageCode', 31), ('SshMessageCode', 30)}


def code_table(enum_class):
    table = {}
    for member in enum_class:
        table.setdefault(member.value.code, []).append(member)
    return table


def item_code(item):
    """Numeric code carried by a parsed list item, whatever wrapper the library uses."""
    if isinstance(item, enum.Enum):
        return item.value.code, 'member'
    if hasattr(item, 'version') and isinstance(item.version, enum.Enum):
        return item.version.value.code, 'member'
    if hasattr(item, 'code') and hasattr(item, 'value') and hasattr(item.value, 'value_type'):
        code = item.code
        if item.value.code != code:
            return ('inconsistent', code, item.value.code), 'invalid'
        return code, 'grease' if item.value.value_type.name == 'GREASE' else 'unknown'
    return ('unrecognised-item', repr(item)[:60]), 'other'


class Check(core.CheckBase):  # pylint: disable=too-many-public-methods
    ID = 'C10'
    TECHNIQUE = 'runtime code-space monitor, exhaustive over all 1- and 2-byte code spaces (alone and in containers)'
    RULE = ('one case = one code point (or one chunk of consecutive code points) of one enumeration, decoded alone or '
            'inside its list container by the real parser; all 2^8 / 2^16 values enumerated, 2^24 / 2^32 spaces by '
            'members, neighbours, byte boundaries and random values; string-coded enums by members, case patterns, '
            'prefix/suffix neighbours and unknown names. distinct = (enumeration, mode, code); non-trivial = the '
            'decoder ran on it')
    EXHAUSTIVE = True
    SHARDS = {'quick': 8, 'thorough': 16}
    ASSUMPTIONS = (
        'cryptodatahub code numbers are taken as given (no IANA registry offline); only their internal consistency '
        'and the RFC numbers of the in-repo IntEnum tables (alerts, handshake/content types, SSL2/SSH message '
        'codes) are judged',
        'the GREASE set is RFC 8701',
    )

    def setup(self):
        from cryptodatahub.common.exception import InvalidValue  # pylint: disable=import-outside-toplevel
        from cryptoparser.common.exception import (  # pylint: disable=import-outside-toplevel
            InvalidType, NotEnoughData, TooMuchData)
        from cryptoparser.common.parse import ComposerBinary  # pylint: disable=import-outside-toplevel
        self.InvalidValue = InvalidValue  # pylint: disable=invalid-name
        self.four = (InvalidValue, InvalidType, NotEnoughData, TooMuchData)
        self.ComposerBinary = ComposerBinary  # pylint: disable=invalid-name
        self.factories = inventory.enum_factories()
        self.opaque = inventory.opaque_enum_factories()
        self.string_enums = inventory.string_enums()
        self.vectors = {}
        for name, cls in inventory.vector_classes().items():
            param = cls.get_param()
            item_class = getattr(param, 'item_class', None)
            if not isinstance(item_class, type):
                continue
            factory = None
            if item_class in self.factories.values():
                factory = item_class
            elif item_class.__name__ == 'TlsProtocolVersion':
                factory = self.factories.get('cryptoparser.tls.version:TlsVersionFactory')
            if factory is not None:
                self.vectors[name] = (cls, factory)
        self.name_vectors = {}
        for name, cls in inventory.vector_classes().items():
            param = cls.get_param()
            item_class = getattr(param, 'item_class', None)
            if type(param).__name__ == 'VectorParamString' and isinstance(item_class, type) and \
                    issubclass(item_class, enum.Enum) and getattr(param, 'fallback_class', None) is str:
                self.name_vectors[name] = (cls, item_class)

    # ------------------------------------------------------------------ workload
    def cases(self):  # pylint: disable=too-many-branches,too-many-locals
        index = 0
        rng = self.plan_rng
        for name, factory in sorted(self.factories.items()):
            size = factory.get_byte_num()
            if size <= 2:
                for start in range(0, 2 ** (8 * size), CHUNK):
                    index += 1
                    if self.mine(index):
                        yield {'kind': 'standalone', 'factory': name, 'start': start,
                               'count': min(CHUNK, 2 ** (8 * size) - start)}
            else:
                codes = set()
                for member in factory.get_enum_class():
                    code = member.value.code
                    codes.update([code, code - 1, code + 1, code ^ 0x80, code ^ (1 << (8 * size - 1)),
                                  code & 0xffff, (code << 8) & (2 ** (8 * size) - 1), code >> 8])
                codes.update([0, 1, 255, 256, 65535, 65536, 2 ** 24 - 1, 2 ** (8 * size) - 1, 2 ** (8 * size - 1)])
                amount = 10 ** 4 if self.tier == 'quick' else 10 ** 6
                codes = sorted(c for c in codes if 0 <= c < 2 ** (8 * size))
                index += 1
                if self.mine(index):
                    yield {'kind': 'standalone-list', 'factory': name, 'codes': codes}
                for block in range(0, amount, CHUNK):
                    index += 1
                    if self.mine(index):
                        block_rng = __import__('random').Random('C10/%s/%s/%d' % (self.seed, name, block))
                        yield {'kind': 'standalone-list', 'factory': name,
                               'codes': [block_rng.randrange(2 ** (8 * size)) for _ in range(min(CHUNK, amount - block))]}
        for name, (cls, factory) in sorted(self.vectors.items()):
            size = factory.get_byte_num()
            param = cls.get_param()
            per_vector = max(1, min(256, param.max_byte_num // size))
            if size <= 2:
                for start in range(0, 2 ** (8 * size), per_vector):
                    index += 1
                    if self.mine(index):
                        yield {'kind': 'container', 'vector': name, 'start': start,
                               'count': min(per_vector, 2 ** (8 * size) - start)}
        # extension types inside the extension lists
        for side in ('Client', 'Server'):
            if self.tier == 'thorough':
                codes = list(range(2 ** 16))
            else:
                codes = set(rng.randrange(2 ** 16) for _ in range(2500))
                codes.update(GREASE_TWO_BYTE)
                codes.update(range(0, 80))
                codes.update([0xff01, 0xff00, 0xff02, 0x3374, 0x4469, 0x754f, 0x7550, 0xffff, 0xfe0d])
                codes = sorted(codes)
            for start in range(0, len(codes), 256):
                index += 1
                if self.mine(index):
                    yield {'kind': 'extension-type', 'side': side, 'codes': codes[start:start + 256]}
        # the same code spaces as they arrive in practice: inside a client hello (suites, compression methods) and as the
        # single selected suite of a server hello
        for start in range(0, 2 ** 16, 256):
            index += 1
            if self.mine(index):
                yield {'kind': 'hello-codes', 'start': start, 'count': 256}
        for name in sorted(self.opaque):
            index += 1
            if self.mine(index):
                yield {'kind': 'opaque', 'factory': name}
        for name in sorted(self.string_enums):
            index += 1
            if self.mine(index):
                yield {'kind': 'string-enum', 'enum': name}
        for name in sorted(self.name_vectors):
            index += 1
            if self.mine(index):
                yield {'kind': 'name-list', 'vector': name}
        for name in sorted(inventory.int_enums()):
            index += 1
            if self.mine(index):
                yield {'kind': 'int-enum', 'enum': name}
        index += 1
        if self.mine(index):
            yield {'kind': 'int-enum-decoders'}

    # ------------------------------------------------------------------ oracles
    def judge(self, case):
        return getattr(self, 'judge_' + case['kind'].replace('-', '_'))(case)

    def _standalone(self, name, factory, table, code, found, case):
        size = factory.get_byte_num()
        short = name.split(':')[1]
        data = code.to_bytes(size, 'big')
        self.stats['standalone_decodes'] += 1
        try:
            member, consumed = factory.parse_immutable(data + b'\x5a')
        except self.InvalidValue:
            if code in table:
                found.append(self.violation('standalone|%s|known-rejected' % short,
                                            'code 0x%x of %s is rejected' % (code, table[code][0]), case))
            return
        except Exception as e:  # pylint: disable=broad-except
            found.append(self.violation('standalone|%s|leak:%s' % (short, type(e).__name__),
                                        'decoding 0x%x raised %r' % (code, e), case))
            return
        if code not in table:
            found.append(self.violation('standalone|%s|unknown-mapped' % short,
                                        'unknown code 0x%x was silently decoded as %r' % (code, member), case))
            return
        if member not in table[code] or getattr(member.value, 'code', None) != code or consumed != size:
            found.append(self.violation('standalone|%s|wrong-member' % short,
                                        'code 0x%x decoded as %r (code 0x%x), consumed %d' % (
                                            code, member, member.value.code, consumed), case))
            return
        if len(table[code]) > 1:
            found.append(self.violation(
                'shared-code|%s:0x%x' % (factory.get_enum_class().__name__, code),
                'members %s share code 0x%x' % ([m.name for m in table[code]], code), case))
        try:
            if hasattr(member, 'compose'):
                encoded = bytes(member.compose())
            else:
                composer = self.ComposerBinary()
                composer.compose_numeric_enum_coded(member)
                encoded = bytes(composer.composed)
        except Exception as e:  # pylint: disable=broad-except
            found.append(self.violation('standalone|%s|reencode-raises:%s' % (short, type(e).__name__), repr(e), case))
            return
        if encoded != data:
            found.append(self.violation('standalone|%s|reencode' % short,
                                        '%r re-encodes to %s, wire was %s' % (member, encoded.hex(), data.hex()), case))

    def judge_standalone(self, case):
        factory = self.factories[case['factory']]
        table = code_table(factory.get_enum_class())
        found = []
        self.observe(('standalone', case['factory'], case['start'], case['count']), True, case)
        for code in range(case['start'], case['start'] + case['count']):
            self._standalone(case['factory'], factory, table, code, found,
                             {'kind': 'standalone', 'factory': case['factory'], 'start': code, 'count': 1})
        return found

    def judge_standalone_list(self, case):
        factory = self.factories[case['factory']]
        table = code_table(factory.get_enum_class())
        found = []
        for code in case['codes']:
            self.observe(('standalone', case['factory'], code), True,
                         {'kind': 'standalone-list', 'factory': case['factory'], 'codes': [code]})
            self._standalone(case['factory'], factory, table, code, found,
                             {'kind': 'standalone-list', 'factory': case['factory'], 'codes': [code]})
        return found

    def _check_items(self, short, items, codes, table, size, found, case, judge_grease):
        if len(items) != len(codes):
            found.append(self.violation('container|%s|length-changed' % short,
                                        '%d codes on the wire, %d items parsed' % (len(codes), len(items)), case))
            return
        for item, code in zip(items, codes):
            got, kind = item_code(item)
            if got != code:
                found.append(self.violation('container|%s|altered' % short,
                                            'code 0x%x came back as %r (%s)' % (code, got, kind), case))
                return
            if (code in table) != (kind == 'member'):
                found.append(self.violation(
                    'container|%s|%s' % (short, 'known-typed-as-unknown' if code in table else 'unknown-typed-as-member'),
                    'code 0x%x (known=%s) parsed as %s' % (code, code in table, kind), case))
                return
            if judge_grease and code not in table:
                grease = code in (GREASE_TWO_BYTE if size == 2 else GREASE_ONE_BYTE)
                if grease != (kind == 'grease'):
                    found.append(self.violation('container|%s|grease-flag' % short,
                                                'code 0x%x flagged %s, RFC 8701 membership is %s' % (code, kind, grease),
                                                case))
                    return

    def _container_once(self, name, cls, factory, codes, case):
        """Returns (violations, rejected?)."""
        size = factory.get_byte_num()
        param = cls.get_param()
        table = code_table(factory.get_enum_class())
        short = name.split(':')[1]
        body = b''.join(code.to_bytes(size, 'big') for code in codes)
        data = len(body).to_bytes(param.item_num_size, 'big') + body
        found = []
        self.stats['container_parses'] += 1
        try:
            vector, consumed = cls.parse_immutable(data)
        except self.four:
            return found, True
        except Exception as e:  # pylint: disable=broad-except
            found.append(self.violation('container|%s|leak:%s' % (short, type(e).__name__),
                                        'parsing %d codes raised %r' % (len(codes), e), case))
            return found, False
        if consumed != len(data):
            found.append(self.violation('container|%s|consumed' % short, 'consumed %d of %d' % (consumed, len(data)), case))
        judge_grease = size == 2 or 'PskKeyExchangeMode' in short
        self._check_items(short, list(vector), codes, table, size, found, case, judge_grease)
        try:
            again = bytes(vector.compose())
            if again != data:
                found.append(self.violation('container|%s|compose-differs' % short,
                                            'parse+compose of %d codes changed the bytes (first difference at %d)' % (
                                                len(codes), next((i for i, (a, b) in enumerate(zip(again, data)) if a != b),
                                                                 min(len(again), len(data)))), case))
        except Exception as e:  # pylint: disable=broad-except
            found.append(self.violation('container|%s|compose-raises:%s' % (short, type(e).__name__), repr(e), case))
        found.extend(self._container_cut(short, cls, param, size, body, case))
        return found, False

    def _container_cut(self, short, cls, param, size, body, case):
        """The declared length is the frame: when it ends inside the last code and the octets of that code (and more) follow
        the list, no item may be made from octets beyond the frame - the list is refused, or what is accepted composes back
        to exactly the framed octets."""
        found = []
        declared = len(body) - 1
        if size < 2 or declared < max(1, param.min_byte_num):
            return found
        data = declared.to_bytes(param.item_num_size, 'big') + body + body[:size]
        self.stats['container_cut_parses'] += 1
        try:
            vector, consumed = cls.parse_immutable(data)
        except self.four:
            return found
        except Exception as e:  # pylint: disable=broad-except
            found.append(self.violation('container|%s|leak:%s' % (short, type(e).__name__),
                                        'a list whose length ends inside its last code raised %r' % e, case))
            return found
        try:
            again = bytes(vector.compose())
        except Exception:  # pylint: disable=broad-except
            again = None
        if consumed != param.item_num_size + declared or again != data[:consumed]:
            found.append(self.violation(
                'container|%s|reads-past-frame' % short,
                'declared %d octets (%s), followed by %s: accepted as %d items consuming %d octets' % (
                    declared, body[max(0, declared - 3):declared].hex(), data[param.item_num_size + declared:][:4].hex(),
                    len(vector), consumed), case))
        return found

    def judge_hello_codes(self, case):  # pylint: disable=too-many-locals,too-many-branches
        from vmon.ref import tls as ref  # pylint: disable=import-outside-toplevel
        import cryptoparser.tls.subprotocol as sub  # pylint: disable=import-outside-toplevel
        from cryptodatahub.tls.algorithm import TlsCipherSuite  # pylint: disable=import-outside-toplevel
        found = []
        codes = list(range(case['start'], case['start'] + case['count']))
        self.observe(('hello-codes', case['start'], case['count']), True, case)
        table = code_table(TlsCipherSuite)
        markers = {0x5600: 'fallback_scsv', 0x00ff: 'empty_renegotiation_info_scsv'}
        # the list holds at most 255 one-byte codes: all but the last in the first hello, all but the first in the second
        compressions = list(range(255)) if case['start'] == 0 else list(range(1, 256)) if case['start'] == 256 else [0]
        data = ref.client_hello(0x0303, b'\x11' * 32, b'', codes, compressions, [])
        self.stats['hello_code_parses'] += 1
        try:
            hello = sub.TlsHandshakeClientHello.parse_exact_size(data)
        except Exception as e:  # pylint: disable=broad-except
            key = 'rejected' if isinstance(e, self.four) else 'leak:' + type(e).__name__
            found.append(self.violation('container|TlsHandshakeClientHello|%s' % key,
                                        'a client hello offering the codes 0x%04x..0x%04x raised %r' % (codes[0], codes[-1], e), case))
            return found
        expected = [code for code in codes if code not in markers]
        self._check_items('TlsHandshakeClientHello.cipher_suites', list(hello.cipher_suites), expected, table, 2, found, case, True)
        for code, flag in markers.items():
            if bool(getattr(hello, flag)) != (code in codes):
                found.append(self.violation('container|TlsHandshakeClientHello|%s' % flag,
                                            '%s is %r for a hello that %s 0x%04x' % (
                                                flag, getattr(hello, flag), 'offers' if code in codes else 'does not offer', code), case))
        if len(compressions) > 1:
            got = [item_code(item)[0] for item in hello.compression_methods]
            if got != compressions:
                found.append(self.violation('container|TlsHandshakeClientHello|compression-altered',
                                            '%d compression method codes came back as %r..' % (len(compressions), got[:8]), case))
        # the selected suite of a server hello, one code at a time (every 8th code in the quick tier)
        for code in codes[::1 if self.tier == 'thorough' else 8]:
            self.stats['hello_code_parses'] += 1
            wire = ref.server_hello(0x0303, b'\x22' * 32, b'', code, 0, [])
            single = dict(case, code=code)
            try:
                server = sub.TlsHandshakeServerHello.parse_exact_size(wire)
            except self.four:
                if code in table:
                    found.append(self.violation('container|TlsHandshakeServerHello|known-rejected',
                                                'a server hello selecting the assigned suite 0x%04x is rejected' % code, single))
                continue
            except Exception as e:  # pylint: disable=broad-except
                found.append(self.violation('container|TlsHandshakeServerHello|leak:%s' % type(e).__name__,
                                            'a server hello selecting 0x%04x raised %r' % (code, e), single))
                continue
            got, kind = item_code(server.cipher_suite)
            if got != code or (code in table) != (kind == 'member'):
                found.append(self.violation('container|TlsHandshakeServerHello|altered',
                                            'selected suite 0x%04x came back as %r (%s)' % (code, got, kind), single))
        dedup = {}
        for violation in found:
            dedup.setdefault(violation.key, violation)
        return list(dedup.values())

    def judge_container(self, case):
        cls, factory = self.vectors[case['vector']]
        size = factory.get_byte_num()
        codes = list(range(case['start'], case['start'] + case['count']))
        self.observe(('container', case['vector'], case['start'], case['count']), True, case)
        param = cls.get_param()
        while len(codes) * size < param.min_byte_num:
            codes.append(codes[-1])
        found, rejected = self._container_once(case['vector'], cls, factory, codes, case)
        if rejected or found:
            # locate: each code between two known members
            members = sorted(code_table(factory.get_enum_class()))
            found = []
            for code in range(case['start'], case['start'] + case['count']):
                single = {'kind': 'container', 'vector': case['vector'], 'start': code, 'count': 1, 'framed': True}
                sub, _ = self._container_once(case['vector'], cls, factory, [members[0], code, members[-1]], single)
                self.stats['container_single'] += 1
                found.extend(sub)
        elif case.get('framed'):
            members = sorted(code_table(factory.get_enum_class()))
            found, _ = self._container_once(case['vector'], cls, factory, [members[0], case['start'], members[-1]], case)
        return found

    def judge_extension_type(self, case):
        import cryptoparser.tls.extension as extension  # pylint: disable=import-outside-toplevel
        cls = getattr(extension, 'TlsExtensions' + case['side'])
        table = code_table(extension.TlsExtensionType)
        found = []
        short = cls.__name__
        for code in case['codes']:
            single = {'kind': 'extension-type', 'side': case['side'], 'codes': [code]}
            self.observe(('extension-type', case['side'], code), True, single)
            self.stats['extension_type_parses'] += 1
            body = b'\x00\x17\x00\x00' + code.to_bytes(2, 'big') + b'\x00\x00' + b'\x00\x16\x00\x00'
            data = len(body).to_bytes(2, 'big') + body
            try:
                vector, consumed = cls.parse_immutable(data)
            except self.four:
                self.stats['extension_type_rejected'] += 1
                continue
            except Exception as e:  # pylint: disable=broad-except
                found.append(self.violation('container|%s|leak:%s' % (short, type(e).__name__),
                                            'extension type 0x%x: %r' % (code, e), single))
                continue
            items = list(vector)
            if len(items) != 3 or consumed != len(data):
                found.append(self.violation('container|%s|length-changed' % short,
                                            'extension type 0x%x: 3 extensions on the wire, %d parsed, consumed %d/%d' % (
                                                code, len(items), consumed, len(data)), single))
                continue
            ext_type = items[1].extension_type
            got, kind = item_code(ext_type)
            if got != code:
                found.append(self.violation('container|%s|altered' % short,
                                            'extension type 0x%x came back as %r (%s)' % (code, got, kind), single))
                continue
            if (code in table) != (kind == 'member'):
                found.append(self.violation(
                    'container|%s|%s' % (short, 'known-typed-as-unknown' if code in table else 'unknown-typed-as-member'),
                    'extension type 0x%x (%s) is preserved but typed as %s' % (
                        code, table[code][0].name if code in table else 'not assigned', kind), single))
            if code not in table and (code in GREASE_TWO_BYTE) != (kind == 'grease'):
                found.append(self.violation('container|%s|grease-flag' % short,
                                            'extension type 0x%x flagged %s' % (code, kind), single))
            try:
                if bytes(vector.compose()) != data:
                    found.append(self.violation('container|%s|compose-differs' % short,
                                                'extension type 0x%x not preserved by parse+compose' % code, single))
            except Exception as e:  # pylint: disable=broad-except
                found.append(self.violation('container|%s|compose-raises:%s' % (short, type(e).__name__), repr(e), single))
        return found

    def judge_opaque(self, case):  # pylint: disable=too-many-branches
        factory = self.opaque[case['factory']]
        short = case['factory'].split(':')[1]
        members = list(factory.get_enum_class())
        table = {}
        for member in members:
            table.setdefault(member.value.code, []).append(member)
        found = []
        names = set(table)
        variants = set()
        for code in names:
            variants.update([code.upper(), code.lower(), code + 'x', code[:-1], 'x' + code, code + '/', code.swapcase(),
                             code + code, code.replace('/', '-'), code + ' '])
        variants.update(['', 'zz', 'http/9.9', 'h9', 'spdy/', '\x00', 'h2\x00'])
        # names that are not valid UTF-8 and collapse to a registered name when the offending bytes are dropped or replaced
        raw_variants = {}
        for code in names:
            raw = code.encode('utf-8')
            for damaged in (raw + b'\xff', b'\xff' + raw, raw[:1] + b'\x80' + raw[1:], raw + b'\xc3', raw[:-1] + b'\xe2\x82' + raw[-1:],
                            raw + b'\xed\xa0\x80', b'\xc0\xaf' + raw):
                raw_variants[damaged.decode('latin-1') + ' (raw)'] = damaged
        for text in sorted(names | variants) + sorted(raw_variants):
            raw = raw_variants.get(text, None) or text.encode('utf-8')
            if not 1 <= len(raw) <= 255:
                continue
            data = bytes([len(raw)]) + raw
            self.observe(('opaque', case['factory'], text), True, {'kind': 'opaque', 'factory': case['factory'], 'name': text})
            self.stats['opaque_decodes'] += 1
            try:
                member, consumed = factory.parse_immutable(data + b'\x01')
            except self.InvalidValue:
                if text in table:
                    found.append(self.violation('opaque|%s|known-rejected' % short, 'name %r rejected' % text, case))
                continue
            except Exception as e:  # pylint: disable=broad-except
                found.append(self.violation('opaque|%s|leak:%s' % (short, type(e).__name__), '%r: %r' % (text, e), case))
                continue
            if text not in table:
                found.append(self.violation('opaque|%s|unknown-mapped' % short,
                                            'unknown name %r decoded as %r' % (text, member), case))
                continue
            if member not in table[text] or consumed != len(data):
                found.append(self.violation('opaque|%s|wrong-member' % short, '%r decoded as %r' % (text, member), case))
                continue
            if len(table[text]) > 1:
                found.append(self.violation('shared-code|%s:%s' % (factory.get_enum_class().__name__, text),
                                            'members %s share the name %r' % ([m.name for m in table[text]], text), case))
            if hasattr(member, 'compose') and bytes(member.compose()) != data:
                found.append(self.violation('opaque|%s|reencode' % short, '%r.compose() != wire' % member, case))
        # inside the list containers
        for vname, vcls in inventory.vector_classes().items():
            param = vcls.get_param()
            if getattr(param, 'item_class', None) is not factory:
                continue
            vshort = vname.split(':')[1]
            ordered = sorted(names)
            for probe in ordered + sorted(v for v in variants if 1 <= len(v.encode('utf-8')) <= 255):
                wire_names = [ordered[0], probe, ordered[-1]]
                body = b''.join(bytes([len(n.encode('utf-8'))]) + n.encode('utf-8') for n in wire_names)
                data = len(body).to_bytes(param.item_num_size, 'big') + body
                self.observe(('opaque-list', vname, probe), True)
                self.stats['opaque_list_parses'] += 1
                single = {'kind': 'opaque', 'factory': case['factory'], 'vector': vname, 'name': probe}
                try:
                    vector, consumed = vcls.parse_immutable(data)
                except self.four:
                    if probe in table:
                        found.append(self.violation('container|%s|known-rejected' % vshort,
                                                    'list holding known name %r rejected' % probe, single))
                    continue
                except Exception as e:  # pylint: disable=broad-except
                    found.append(self.violation('container|%s|leak:%s' % (vshort, type(e).__name__),
                                                '%r: %r' % (probe, e), single))
                    continue
                got = [getattr(getattr(item, 'value', None), 'code', item) for item in vector]
                if got != wire_names or consumed != len(data):
                    found.append(self.violation('container|%s|altered' % vshort,
                                                'names %r parsed as %r' % (wire_names, got), single))
                elif bytes(vector.compose()) != data:
                    found.append(self.violation('container|%s|compose-differs' % vshort,
                                                'names %r not preserved by parse+compose' % wire_names, single))
        return found

    def judge_string_enum(self, case):  # pylint: disable=too-many-branches,too-many-locals
        import random  # pylint: disable=import-outside-toplevel
        cls = self.string_enums[case['enum']]
        short = case['enum'].split(':')[1]
        insensitive = 'CaseInsensitive' in ''.join(base.__name__ for base in cls.__mro__)
        members = list(cls)
        found = []
        norm = (lambda s: s.lower()) if insensitive else (lambda s: s)
        table = {}
        for member in members:
            table.setdefault(norm(member.value.code), []).append(member)
        for code, sharing in table.items():
            if len(sharing) > 1:
                found.append(self.violation('shared-code|%s:%s' % (short, code),
                                            'members %s share the code %r' % ([m.name for m in sharing], code), case))
        rng = random.Random('C10/%s/%s' % (self.seed, case['enum']))
        for member in members:
            code = member.value.code
            spellings = [code]
            if insensitive:
                spellings += [code.upper(), code.lower(), code.title(), code.swapcase()]
                for _ in range(12 if self.tier == 'quick' else 200):
                    spellings.append(''.join(ch.upper() if rng.random() < 0.5 else ch.lower() for ch in code))
            for spelling in spellings:
                self.observe(('string-enum', case['enum'], spelling), True,
                             {'kind': 'string-enum', 'enum': case['enum'], 'spelling': spelling})
                self.stats['string_enum_decodes'] += 1
                try:
                    data = spelling.encode('ascii')
                    got, consumed = cls.parse_immutable(data)
                except Exception as e:  # pylint: disable=broad-except
                    found.append(self.violation('string-enum|%s|member-rejected:%s' % (short, type(e).__name__),
                                                'spelling %r of %s: %r' % (spelling, member.name, e), case))
                    continue
                if got is not member or consumed != len(data):
                    found.append(self.violation('string-enum|%s|wrong-member' % short,
                                                '%r decoded as %r consuming %d' % (spelling, got, consumed), case))
            try:
                if bytes(member.compose()) != code.encode('ascii'):
                    found.append(self.violation('string-enum|%s|reencode' % short,
                                                '%s composes to %r' % (member.name, member.compose()), case))
            except Exception as e:  # pylint: disable=broad-except
                found.append(self.violation('string-enum|%s|compose-raises:%s' % (short, type(e).__name__), repr(e), case))
        # unknown strings: no member code is a prefix of them
        codes = [norm(m.value.code) for m in members]
        unknown = ['', '\x7f', 'zzzz-unknown', '#', '\xff'.encode('latin-1').decode('latin-1')]
        for code in codes:
            unknown += [code[:-1], 'q' + code, code[:max(0, len(code) // 2)]]
        for text in unknown:
            if any(norm(text).startswith(code) for code in codes):
                continue
            self.observe(('string-enum-unknown', case['enum'], text), True)
            self.stats['string_enum_unknown'] += 1
            try:
                got, _ = cls.parse_immutable(text.encode('latin-1'))
            except self.InvalidValue:
                continue
            except Exception as e:  # pylint: disable=broad-except
                found.append(self.violation('string-enum|%s|leak:%s' % (short, type(e).__name__),
                                            'unknown %r: %r' % (text, e), case))
                continue
            found.append(self.violation('string-enum|%s|unknown-mapped' % short,
                                        'unknown %r decoded as %r' % (text, got), case))
        return found

    def judge_name_list(self, case):
        cls, item_class = self.name_vectors[case['vector']]
        short = case['vector'].split(':')[1]
        found = []
        table = {}
        for member in item_class:
            table.setdefault(member.value.code, []).append(member)
        for code, sharing in table.items():
            if len(sharing) > 1:
                found.append(self.violation('shared-code|%s:%s' % (item_class.__name__, code),
                                            'members %s share the name %r' % ([m.name for m in sharing], code), case))
        probes = sorted(table)
        for code in sorted(table):
            probes += [code + '@example.com', code[:-1], 'x-' + code, code.upper() if code.upper() != code else code + 'X']
        probes += ['unknown-algorithm', 'a', '@', 'none@']
        for probe in probes:
            if ',' in probe or not probe:
                continue
            names = ['first-unknown@verif', probe, 'last-unknown@verif']
            body = ','.join(names).encode('ascii')
            data = len(body).to_bytes(4, 'big') + body
            self.observe(('name-list', case['vector'], probe), True,
                         {'kind': 'name-list', 'vector': case['vector'], 'name': probe})
            self.stats['name_list_parses'] += 1
            single = {'kind': 'name-list', 'vector': case['vector'], 'name': probe}
            try:
                vector, consumed = cls.parse_immutable(data)
            except Exception as e:  # pylint: disable=broad-except
                found.append(self.violation('container|%s|raises:%s' % (short, type(e).__name__),
                                            'name-list %r: %r' % (names, e), single))
                continue
            got = [item.value.code if isinstance(item, enum.Enum) else item for item in vector]
            kinds = [isinstance(item, enum.Enum) for item in vector]
            if got != names or consumed != len(data):
                found.append(self.violation('container|%s|altered' % short, '%r parsed as %r' % (names, got), single))
                continue
            if kinds != [False, probe in table, False]:
                found.append(self.violation('container|%s|classification' % short,
                                            '%r parsed with member flags %r' % (names, kinds), single))
                continue
            if probe in table and vector[1] not in table[probe]:
                found.append(self.violation('container|%s|wrong-member' % short, '%r -> %r' % (probe, vector[1]), single))
            try:
                if bytes(vector.compose()) != data:
                    found.append(self.violation('container|%s|compose-differs' % short,
                                                '%r not preserved by parse+compose' % names, single))
            except Exception as e:  # pylint: disable=broad-except
                found.append(self.violation('container|%s|compose-raises:%s' % (short, type(e).__name__), repr(e), single))
        return found

    def judge_int_enum(self, case):
        cls = inventory.int_enums()[case['enum']]
        short = case['enum'].split(':')[1]
        found = []
        self.observe(('int-enum', case['enum']), True, case)
        self.stats['int_enums_checked'] += 1
        by_value = {}
        for name, member in cls.__members__.items():
            by_value.setdefault(int(member), []).append(name)
        for value, names in sorted(by_value.items()):
            if len(names) > 1 and (short, value) not in SHARED_BY_PROTOCOL:
                found.append(self.violation('shared-code|%s:0x%x' % (short, value),
                                            'names %s of %s share the number 0x%x' % (names, short, value), case))
        for name, number in RFC_NUMBERS.get(short, {}).items():
            if name in cls.__members__:
                self.stats['rfc_numbers_compared'] += 1
                if int(cls.__members__[name]) != number:
                    found.append(self.violation('rfc-number|%s.%s' % (short, name),
                                                '%s.%s = %d, the RFC assigns %d' % (short, name, int(cls.__members__[name]),
                                                                                    number), case))
        return found

    def judge_int_enum_decoders(self, case):
        """256-value sweeps through the real parsers that decode in-repo IntEnum tables."""
        import cryptoparser.tls.record as record  # pylint: disable=import-outside-toplevel
        import cryptoparser.tls.subprotocol as sub  # pylint: disable=import-outside-toplevel
        found = []
        sweeps = [
            ('TlsContentType', record.TlsRecord, lambda c: bytes([c]) + b'\x03\x03\x00\x01\x00',
             lambda obj: int(obj.content_type), set(int(m) for m in sub.TlsContentType)),
            ('TlsAlertDescription', sub.TlsAlertMessage, lambda c: b'\x02' + bytes([c]),
             lambda obj: int(obj.description), set(int(m) for m in sub.TlsAlertDescription)),
            ('TlsAlertLevel', sub.TlsAlertMessage, lambda c: bytes([c]) + b'\x00',
             lambda obj: int(obj.level), set(int(m) for m in sub.TlsAlertLevel)),
            ('SslErrorType', sub.SslErrorMessage, lambda c: b'\x00' + bytes([c]),
             lambda obj: int(obj.error_type), set(int(m) for m in sub.SslErrorType)),
            ('TlsChangeCipherSpecType', sub.TlsChangeCipherSpecMessage, lambda c: bytes([c]),
             lambda obj: int(obj._change_cipher_spec_type),  # pylint: disable=protected-access
             set(int(m) for m in sub.TlsChangeCipherSpecType)),
            ('TlsClientCertificateType', sub.TlsClientCertificateTypeVector, lambda c: b'\x02\x01' + bytes([c]),
             lambda obj: int(obj[1]), set(int(m) for m in sub.TlsClientCertificateType)),
        ]
        for name, cls, encode, extract, known in sweeps:
            for code in range(256):
                self.observe(('int-decode', name, code), True, {'kind': 'int-enum-decoders', 'enum': name, 'code': code})
                self.stats['int_enum_decodes'] += 1
                data = encode(code)
                try:
                    obj, consumed = cls.parse_immutable(data)
                except self.four:
                    if code in known:
                        found.append(self.violation('int-decode|%s|known-rejected' % name, 'code %d rejected' % code, case))
                    continue
                except Exception as e:  # pylint: disable=broad-except
                    found.append(self.violation('int-decode|%s|leak:%s' % (name, type(e).__name__),
                                                'code %d: %r' % (code, e), case))
                    continue
                if code not in known:
                    found.append(self.violation('int-decode|%s|unknown-mapped' % name,
                                                'unknown code %d accepted as %r' % (code, extract(obj)), case))
                elif extract(obj) != code or consumed != len(data) or bytes(obj.compose()) != data:
                    found.append(self.violation('int-decode|%s|altered' % name,
                                                'code %d decoded as %r / recomposed %s' % (
                                                    code, extract(obj), bytes(obj.compose()).hex()), case))
        return found

    def floors(self):
        return {'standalone_decodes': 300000, 'container_parses': 1000, 'extension_type_parses': 2000,
                'opaque_decodes': 50, 'string_enum_decodes': 100, 'name_list_parses': 100, 'int_enums_checked': 20,
                'int_enum_decodes': 1000, 'rfc_numbers_compared': 50}

    def finish(self):
        return {'factories': sorted(n.split(':')[1] for n in self.factories),
                'containers': sorted(n.split(':')[1] for n in self.vectors),
                'name_list_containers': sorted(n.split(':')[1] for n in self.name_vectors)}
