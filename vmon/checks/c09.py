# -*- coding: utf-8 -*-
"""C09 - opportunistic-TLS application messages match their protocol specifications.

Differential monitor vs. vmon/ref/opp.py plus the wire-type monitor: the object returned for a PDU has the
type that is on the wire, and a PDU of the other kind offered to the wrong class is rejected with one of
the documented errors, never silently returned as that class.
"""
from vmon import pipeline
from vmon.checks import differential


class Check(differential.DifferentialCheck):
    ID = 'C09'
    TECHNIQUE = 'runtime differential monitor vs. independent MySQL/RDP/OpenVPN/PostgreSQL/LDAP-DER encoders; wire-type monitor'
    RULE = ('one case = one generated MySQL HandshakeV10 / SSLRequest (4.1 and 3.20 forms) / packet, TPKT, X.224 CR/CC, RDP '
            'negotiation request/response, OpenVPN control/ack/hard-reset packet (0..255 acked ids) and TCP wrapper, '
            'PostgreSQL SSLRequest, LDAP StartTLS request/response (every result code; other message ids, responseName, '
            'diagnostic text for the parse direction), built through the library constructors and the reference encoders; '
            'distinct = SHA-1 of (class, reference bytes); non-trivial = every case')
    BLOCKS = {'quick': 60, 'thorough': 16000}
    PER_BLOCK = 60
    ASSUMPTIONS = ('vmon/ref/opp.py is my reading of the MySQL protocol documentation, RFC 1006, X.224/ISO 8073, MS-RDPBCGR, the '
                   'OpenVPN protocol description, the PostgreSQL protocol and RFC 4511', )

    COUNTERPART = {
        'COTPConnectionRequest': 'COTPConnectionConfirm', 'COTPConnectionConfirm': 'COTPConnectionRequest',
        'RDPNegotiationRequest': 'RDPNegotiationResponse', 'RDPNegotiationResponse': 'RDPNegotiationRequest',
        'LDAPExtendedRequestStartTLS': 'LDAPExtendedResponseStartTLS', 'LDAPExtendedResponseStartTLS': 'LDAPExtendedRequestStartTLS',
    }

    def generator(self):
        from vmon.gen import opp  # pylint: disable=import-outside-toplevel
        return opp

    def extra_oracles(self, pair, parsed, case):
        found = []
        if 'wire_type' not in pair.extra:
            return found
        import importlib  # pylint: disable=import-outside-toplevel
        self.stats['wire_type_checks'] += 1
        if type(parsed) is not pair.cls:  # pylint: disable=unidiomatic-typecheck
            found.append(self.violation('wrong-kind-returned|%s' % pair.cls.__name__,
                                        '%s: a %s on the wire is returned as %s' % (pair.label, pair.extra['wire_type'],
                                                                                     type(parsed).__name__), case))
        module = importlib.import_module(pair.cls.__module__)
        other = getattr(module, self.COUNTERPART[pair.cls.__name__])
        try:
            wrong = other.parse_exact_size(pair.wire)
        except pipeline.parse_errors():
            return found
        except Exception as e:  # pylint: disable=broad-except
            found.append(self.violation('wrong-kind-leak|%s|%s' % (other.__name__, type(e).__name__),
                                        '%s offered to %s raised %r' % (pair.label, other.__name__, e), case))
            return found
        found.append(self.violation('wrong-kind-accepted|%s' % other.__name__,
                                    '%s: a %s PDU offered to %s is accepted and returned as %s' % (
                                        pair.label, pair.extra['wire_type'], other.__name__, type(wrong).__name__), case))
        return found

    def floors(self):
        floors = super(Check, self).floors()
        floors['wire_type_checks'] = 150
        return floors
