# -*- coding: utf-8 -*-
"""Shared differential oracle for C06-C09: library vs. independent reference encoder, both directions.

(1) bytes(obj.compose()) == reference bytes; (2) Class.parse_exact_size(reference bytes) is structurally
equal to the object built through the public constructor. An error made consistently in parse and compose
fails both comparisons.
"""
import copy
import random

from vmon import core, inventory, pipeline, roundtrip, structural


class DifferentialCheck(core.CheckBase):
    BLOCKS = {'quick': 8, 'thorough': 400}
    PER_BLOCK = 120
    SHARDS = {'quick': 8, 'thorough': 16}

    def generator(self):
        """module with generate(rng, count) yielding Pair objects"""
        raise NotImplementedError()

    def setup(self):
        self.allowed = pipeline.parse_errors()
        self.gen = self.generator()

    def cases(self):
        for block in range(self.BLOCKS[self.tier]):
            if self.mine(block):
                yield {'kind': 'block', 'rng': '%s/%s/%d' % (self.ID, self.seed, block)}

    def judge(self, case):
        rng = random.Random(case['rng'])
        found = []
        wanted = case.get('index')
        for index, pair in enumerate(self.gen.generate(rng, self.PER_BLOCK, failures=True)):
            if wanted is not None and index != wanted:
                continue
            single = {'kind': 'block', 'rng': case['rng'], 'index': index, 'label': pair.label}
            if not hasattr(pair, 'wire'):
                # a public constructor refused values the specification allows (e.g. an empty list where the RFC permits one)
                self.stats['construction_failures'] += 1
                found.append(self.violation(roundtrip.exc_key('construct-raises', pair.error),
                                            '%s: building the library object for specification-conformant values raised %r' % (
                                                pair.label, pair.error), single))
                if wanted is not None:
                    break
                continue
            try:
                found.extend(self.judge_pair(pair, single))
            except Exception as e:  # pylint: disable=broad-except
                found.append(self.violation('harness-error|%s|%s' % (pair.label, type(e).__name__), repr(e), single))
            if wanted is not None:
                break
        dedup = {}
        for violation in found:
            dedup.setdefault(violation.key, violation)
        return list(dedup.values())

    def judge_pair(self, pair, case):
        found = []
        cls = pair.cls
        name = cls.__name__
        self.stats['pairs'] += 1
        self.stats['label_' + pair.label.split('-Tls')[0].split('-Ssh')[0]] += 1
        self.notes.setdefault('classes', set()).add(inventory.class_name(cls))
        self.observe((name, pair.wire), True, {'label': pair.label, 'cls': name, 'wire': pair.wire[:48].hex(),
                                               'len': len(pair.wire)})
        # (1) compose vs reference
        if pair.compose_must_match:
            self.stats['compose_comparisons'] += 1
            try:
                composed = pipeline.compose_of(pair.obj, cls)
            except Exception as e:  # pylint: disable=broad-except
                found.append(self.violation(roundtrip.exc_key('compose-raises', e),
                                            '%s: compose() of a constructed %s raised %r' % (pair.label, name, e), case))
                composed = None
            if composed is not None and composed != pair.wire:
                offset = next((i for i, (a, b) in enumerate(zip(composed, pair.wire)) if a != b),
                              min(len(composed), len(pair.wire)))
                found.append(self.violation(
                    'compose-differs|%s%s' % (name, pair.key_suffix),
                    '%s: library composes %s, the specification says %s (first difference at byte %d; lengths %d / %d)' % (
                        pair.label, composed[max(0, offset - 8):offset + 12].hex(), pair.wire[max(0, offset - 8):offset + 12].hex(),
                        offset, len(composed), len(pair.wire)), case))
            # the bytes handed out belong to the caller: scribbling over them must not reach what a later compose of an
            # equal object returns (results cached in, or aliasing, shared state)
            if composed is not None and hasattr(pair.obj, 'compose'):
                try:
                    twin = copy.deepcopy(pair.obj)
                    handed_out = pair.obj.compose()
                    if isinstance(handed_out, bytearray) and handed_out:
                        self.stats['handed_out_buffers_scribbled'] += 1
                        handed_out[:] = b'\xa5' * len(handed_out)
                        handed_out += b'\x5a'
                        again = bytes(twin.compose())
                        if again != composed:
                            found.append(self.violation(
                                'compose-aliases-result|%s' % name,
                                '%s: after the caller overwrote the bytes compose() had returned, compose() of an equal %s returns '
                                '%s.. instead of %s..' % (pair.label, name, again[:16].hex(), composed[:16].hex()), case))
                except Exception:  # pylint: disable=broad-except
                    pass
        # (2) parse of the reference encoding vs the constructed object
        self.stats['parse_comparisons'] += 1
        try:
            parsed = cls.parse_exact_size(pair.wire)
        except Exception as e:  # pylint: disable=broad-except
            found.append(self.violation(roundtrip.exc_key('parse-rejects', e) + pair.key_suffix,
                                        '%s: a specification-conformant %s (%s..) is rejected: %r' % (
                                            pair.label, name, pair.wire[:32].hex(), e), case))
            return found
        expected_state = structural.deep_state(pair.obj)
        parsed_state = structural.deep_state(parsed)
        if parsed_state != expected_state:
            found.append(self.violation(
                roundtrip.value_key('parse-differs', cls, expected_state, parsed_state) + pair.key_suffix,
                '%s: parsing the specification encoding (%s..) does not recover the encoded values: differs at %s' % (
                    pair.label, pair.wire[:32].hex(), structural.diff_path(expected_state, parsed_state)), case))
        found.extend(self.buffer_kinds(pair, parsed_state, case))
        found.extend(self.followed_by_more(pair, parsed_state, case))
        found.extend(self.extra_oracles(pair, parsed, case))
        found.extend(self.edit_consistency(pair, case))
        found.extend(self.collection_kinds(pair, case))
        return found

    FRAMED = ('openvpn-tcp', 'mysql-packet', 'tpkt', 'tls-record', 'ssl2-', 'client-hello', 'server-hello', 'hello-retry-request',
              'certificate', 'server-key-exchange', 'server-hello-done', 'extension-')

    def followed_by_more(self, pair, parsed_state, case):
        """A unit that carries its own length (record, packet, handshake message, extension) ends where that length says,
        whatever is already in the buffer behind it: the next unit, padding, garbage."""
        found = []
        if not pair.label.startswith(self.FRAMED):
            return found
        cls, name = pair.cls, pair.cls.__name__
        for what, suffix in (('one zero octet', b'\x00'), ('a copy of itself', pair.wire), ('seven 0xff octets', b'\xff' * 7)):
            self.stats['followed_by_more_parses'] += 1
            try:
                other, consumed = cls.parse_immutable(pair.wire + suffix)
            except Exception as e:  # pylint: disable=broad-except
                found.append(self.violation(
                    'followed-by-more|%s|rejects:%s%s' % (name, type(e).__name__, pair.key_suffix),
                    '%s: accepted alone, but followed by %s it raises %r' % (pair.label, what, e), case))
                break
            if consumed != len(pair.wire) or structural.deep_state(other) != parsed_state:
                found.append(self.violation(
                    'followed-by-more|%s%s' % (name, pair.key_suffix),
                    '%s: followed by %s it is read as %d octets (alone: %d) %s' % (
                        pair.label, what, consumed, len(pair.wire),
                        'with other values' if structural.deep_state(other) != parsed_state else 'with the same values'), case))
                break
        return found

    def buffer_kinds(self, pair, parsed_state, case):
        """The kind of buffer the bytes arrive in (bytes, bytearray, memoryview-free mutable buffer that is consumed) is
        not part of the message: every entry point reads the same values out of the same octets."""
        found = []
        cls, name = pair.cls, pair.cls.__name__
        attempts = (
            ('parse_exact_size(bytearray)', lambda: cls.parse_exact_size(bytearray(pair.wire))),
            ('parse_immutable(bytearray)', lambda: cls.parse_immutable(bytearray(pair.wire))[0]),
            ('parse_mutable(bytearray)', lambda: cls.parse_mutable(bytearray(pair.wire))),
        )
        for how, attempt in attempts:
            self.stats['buffer_kind_parses'] += 1
            try:
                other = attempt()
            except Exception as e:  # pylint: disable=broad-except
                found.append(self.violation(
                    'buffer-kind-rejects|%s|%s%s' % (name, type(e).__name__, pair.key_suffix),
                    '%s: the reference encoding is accepted as bytes by parse_exact_size, but %s raises %r' % (pair.label, how, e),
                    case))
                continue
            other_state = structural.deep_state(other)
            if other_state != parsed_state:
                found.append(self.violation(
                    'buffer-kind-differs|%s%s' % (name, pair.key_suffix),
                    '%s: %s reads other values than parse_exact_size(bytes): differs at %s' % (
                        pair.label, how, structural.diff_path(parsed_state, other_state)), case))
        return found

    @staticmethod
    def rebuilt(obj):
        """A new object of the same class built through the constructor from the current field values of `obj`."""
        import attr  # pylint: disable=import-outside-toplevel
        kwargs = {}
        for field in attr.fields(type(obj)):
            if field.init:
                value = getattr(obj, field.name)
                kwargs[field.name.lstrip('_')] = copy.copy(value) if isinstance(value, (set, list, dict, bytearray)) else value
        return type(obj)(**kwargs)

    def edit_consistency(self, pair, case):
        """compose() is a function of the current field values: after the owner edits the object in place (toggles a flag in a
        set, appends to / pops from a vector or byte array, re-assigns a field), it must compose to what a fresh object built from
        the same values composes to - nothing remembered from before the edit (memoised encodings, layout decisions, tags)."""
        import attr  # pylint: disable=import-outside-toplevel
        import enum  # pylint: disable=import-outside-toplevel
        found = []
        if not attr.has(pair.cls) or not hasattr(pair.obj, 'compose'):
            return found
        try:
            obj = copy.deepcopy(pair.obj)
            obj.compose()       # whatever is remembered gets remembered now
            for probe in ('key_tag', 'fingerprints', 'ja3', 'hassh'):
                if hasattr(type(obj), probe):
                    value = getattr(obj, probe)
                    if callable(value):
                        value()
        except Exception:  # pylint: disable=broad-except
            return found
        edits = []
        for field in attr.fields(pair.cls):
            value = getattr(obj, field.name, None)
            if isinstance(value, set) and value and all(isinstance(member, enum.Enum) for member in value):
                for member in list(type(next(iter(value))))[:40]:
                    edits.append((field.name, 'toggle %s' % member.name, value, member))
            elif isinstance(value, bytearray):
                edits.append((field.name, 'extend', value, None))
            elif hasattr(value, '_items_size') and hasattr(value, 'append') and len(value):
                edits.append((field.name, 'append+pop', value, None))
        for field_name, label, container, member in edits[:60]:
            undo = None
            try:
                if member is not None:
                    if member in container:
                        container.discard(member)
                        undo = lambda c=container, m=member: c.add(m)
                    else:
                        container.add(member)
                        undo = lambda c=container, m=member: c.discard(m)
                elif label == 'extend':
                    container += b'\x01'
                    undo = lambda c=container: c.pop()
                else:
                    container.append(container[0])
                    undo = lambda c=container: c.pop()
            except Exception:  # pylint: disable=broad-except
                continue
            self.stats['in_place_edits_composed'] += 1
            try:
                try:
                    fresh_obj = self.rebuilt(obj)
                    if any(not structural.equal(getattr(fresh_obj, field.name), getattr(obj, field.name))
                           for field in attr.fields(pair.cls) if field.init):
                        continue    # the constructor normalises dependent fields: the edited object is not one it would build
                    fresh = bytes(fresh_obj.compose())
                except Exception:  # pylint: disable=broad-except
                    continue        # the edited values do not make a constructible object: nothing to compare with
                try:
                    edited = bytes(obj.compose())
                except Exception as e:  # pylint: disable=broad-except
                    found.append(self.violation(
                        'stale-after-edit|%s|%s' % (pair.cls.__name__, field_name),
                        '%s: after %s on .%s compose() raises %r although a fresh object with the same values composes' % (
                            pair.label, label, field_name, e), case))
                    break
                if edited != fresh:
                    found.append(self.violation(
                        'stale-after-edit|%s|%s' % (pair.cls.__name__, field_name),
                        '%s: after %s on .%s compose() gives %s.. (%d bytes), a fresh object with the same values gives %s.. (%d bytes)' % (
                            pair.label, label, field_name, edited[:16].hex(), len(edited), fresh[:16].hex(), len(fresh)), case))
                    break
            finally:
                try:
                    undo()
                except Exception:  # pylint: disable=broad-except
                    break
        return found

    def collection_kinds(self, pair, case):
        """A flag field is a set of members however the caller spelled the collection: a list naming a member twice, a
        tuple or a frozenset composes to the bytes the set composes to (when the constructor takes the collection at all)."""
        import attr  # pylint: disable=import-outside-toplevel
        import enum  # pylint: disable=import-outside-toplevel
        found = []
        if not attr.has(pair.cls) or not hasattr(pair.obj, 'compose'):
            return found
        try:
            base = bytes(pair.obj.compose())
        except Exception:  # pylint: disable=broad-except
            return found
        for field in attr.fields(pair.cls):
            value = getattr(pair.obj, field.name, None)
            if not (field.init and isinstance(value, (set, frozenset)) and value
                    and all(isinstance(member, enum.Enum) for member in value)):
                continue
            members = sorted(value, key=lambda member: member.name)
            for label, collection in (('list-with-repeats', members + members[:1] + members[-1:]),
                                      ('tuple', tuple(reversed(members))), ('frozenset', frozenset(members))):
                try:
                    twin = copy.copy(pair.obj)
                    twin = attr.evolve(twin, **{field.name.lstrip('_'): collection})
                    if set(getattr(twin, field.name)) != set(value):
                        continue
                except Exception:  # pylint: disable=broad-except
                    continue        # the constructor does not take this kind of collection
                self.stats['collection_kinds_composed'] += 1
                try:
                    other = bytes(twin.compose())
                except Exception as e:  # pylint: disable=broad-except
                    found.append(self.violation(
                        'collection-kind|%s|%s|raises' % (pair.cls.__name__, field.name),
                        '%s: with .%s given as a %s compose() raises %r' % (pair.label, field.name, label, e), case))
                    break
                if other != base:
                    offset = next((i for i, (a, b) in enumerate(zip(other, base)) if a != b), min(len(other), len(base)))
                    found.append(self.violation(
                        'collection-kind|%s|%s' % (pair.cls.__name__, field.name),
                        '%s: with .%s given as a %s of the same members compose() gives %s at byte %d where the set gives %s' % (
                            pair.label, field.name, label, other[offset:offset + 4].hex(), offset, base[offset:offset + 4].hex()), case))
                    break
        return found

    def extra_oracles(self, pair, parsed, case):  # pylint: disable=unused-argument
        return []

    def floors(self):
        return {'pairs': 300, 'compose_comparisons': 250, 'parse_comparisons': 300}

    def finish(self):
        return {'classes': sorted(self.notes.get('classes', set()))}
