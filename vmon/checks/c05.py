# -*- coding: utf-8 -*-
"""C05 - re-serialising an accepted input is a stable canonical form.

Canonical-form monitor: parse -> compose -> parse (structurally equal) -> compose (byte-identical), on
every input the real parser accepts: corpus seeds, accepted survivors of W-mutate, and generated
non-canonical spellings.
"""
import random

from vmon import core, inventory, mutate, pipeline, roundtrip
from vmon.gen import noncanonical

BUDGET = {'quick': 120, 'thorough': 9000}
REFERENCE_BLOCKS = {'quick': 4, 'thorough': 60}     # per protocol family, 60 reference encodings each


class Check(core.CheckBase):
    ID = 'C05'
    TECHNIQUE = 'runtime canonical-form monitor (parse/compose/parse/compose) over accepted mutants and non-canonical spellings'
    RULE = ('inputs: every valid encoding of the seed corpus, every mutant of them, generated non-canonical spellings '
            '(date formats and zones, multi-string TXT, redundant separators, case, unknown flag bits, SCSV order), '
            'reference encodings of generator-built values (vmon/ref, never produced by the library itself); only '
            'inputs the parser *accepts* are judged; distinct = SHA-1 of (class, accepted bytes); non-trivial = accepted')
    SHARDS = {'quick': 8, 'thorough': 16}
    ASSUMPTIONS = ('equality is structural (vmon/structural.py): same type, same fields recursively; aware datetimes '
                   'compare by instant', )

    def setup(self):
        self.corpus = pipeline.corpus_by_class()
        self.all_seeds = [data for seeds in self.corpus.values() for data in seeds]
        self.classes = inventory.parsable_classes(concrete_only=False)

    def cases(self):
        index = 0
        for name in sorted(self.corpus):
            if name not in self.classes:
                continue
            for seed_index in range(len(self.corpus[name])):
                index += 1
                if self.mine(index):
                    yield {'kind': 'seed', 'cls': name, 'seed_index': seed_index, 'of': len(self.corpus[name])}
        for name, count in noncanonical.families(self.tier):
            for block in range(count):
                index += 1
                if self.mine(index) and name in self.classes:
                    yield {'kind': 'noncanonical', 'cls': name, 'block': block}
        for family in ('tls', 'ssh', 'dns', 'opp'):
            for block in range(REFERENCE_BLOCKS[self.tier]):
                index += 1
                if self.mine(index):
                    yield {'kind': 'reference', 'cls': family, 'block': block}

    def judge(self, case):
        if case['kind'] == 'input':
            return self.judge_input(case['cls'], bytes.fromhex(case['hex']), 'replay')
        name = case['cls']
        found = []
        if case['kind'] == 'seed':
            rng = random.Random('C05/%s/%s/%s' % (self.seed, name, case['seed_index']))
            data = self.corpus[name][case['seed_index']]
            rejected_before = self.stats['rejected']
            found.extend(self.judge_input(name, data, 'seed'))
            if self.stats['rejected'] != rejected_before:
                # recorded as accepted on the pinned tree: an accepted input the parser no longer accepts has lost its meaning
                found.append(self.violation('recorded-input-rejected|%s' % name.split(':')[1],
                                            '%s no longer accepts %s.. of the seed corpus' % (name.split(':')[1], data[:32].hex()),
                                            {'kind': 'seed', 'cls': name, 'seed_index': case['seed_index'], 'of': case['of']}))
            budget = max(16, BUDGET[self.tier] // case['of'])
            others = self.corpus[name] + [rng.choice(self.all_seeds) for _ in range(3)]
            for recipe, mutant in mutate.mutants(data, others, rng, budget):
                found.extend(self.judge_input(name, mutant, str(recipe[0])))
        elif case['kind'] == 'reference':
            # encodings written by the independent reference encoders (vmon/ref) for generator-built values: accepted inputs
            # that never went through the library's own compose
            import importlib  # pylint: disable=import-outside-toplevel
            rng = random.Random('C05/ref/%s/%s/%s' % (self.seed, name, case['block']))
            for pair in importlib.import_module('vmon.gen.' + name).generate(rng, 60):
                self.stats['reference_encodings'] += 1
                found.extend(self.judge_input(inventory.class_name(pair.cls), pair.wire, 'reference:' + pair.label))
        else:
            rng = random.Random('C05/nc/%s/%s/%s' % (self.seed, name, case['block']))
            for label, data in noncanonical.generate(name, rng, 40):
                found.extend(self.judge_input(name, data, 'noncanonical:' + label))
        return found

    def judge_input(self, name, data, recipe):
        cls = self.classes.get(name) or inventory.resolve(name)
        accepted, results, info = roundtrip.canonical_form(cls, data)
        self.stats['tried'] += 1
        if not accepted:
            self.evaluations += 1
            self.stats['rejected'] += 1
            return []
        self.stats['accepted'] += 1
        if info.get('canonical'):
            self.stats['accepted_noncanonical'] += 1
        if recipe.startswith('noncanonical'):
            self.stats['accepted_generated_spellings'] += 1
        self.observe((name, data[:info.get('consumed', len(data))]), True,
                     {'cls': name, 'hex': data[:48].hex(), 'len': len(data), 'recipe': recipe,
                      'already_canonical': not info.get('canonical')})
        self.notes.setdefault('classes', set()).add(name)
        case = {'kind': 'input', 'cls': name, 'hex': data.hex()}
        return [self.violation(key, what, case) for key, what in results]

    def floors(self):
        return {'accepted': 3000, 'accepted_noncanonical': 300, 'classes': 300, 'reference_encodings': 400}

    def finish(self):
        return {'classes': sorted(self.notes.get('classes', set()))}
