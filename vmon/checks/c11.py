# -*- coding: utf-8 -*-
"""C11 - integer, flag, mpint and timestamp primitives are exact and never truncate.

Primitive monitor: every call goes to the real ComposerBinary / ParserBinary; the oracle is Python's
int.to_bytes / int.from_bytes (integers), an RFC 4251 mpint reference, plain epoch arithmetic
(timestamps) and a metamorphic TZ-invariance relation (same bytes under every time zone).
"""
import datetime
import enum
import os
import sys
import time

from vmon import core, inventory

SIZES = (1, 2, 3, 4, 8)
ORDERS = ('NATIVE', 'LITTLE_ENDIAN', 'BIG_ENDIAN', 'NETWORK')
CHUNK = 4096
UTC = datetime.timezone.utc

ZONES = [
    'UTC', 'Europe/Budapest', 'America/New_York', 'Australia/Lord_Howe', 'Europe/Moscow', 'America/Caracas',
    'Asia/Pyongyang', 'Pacific/Apia', 'Asia/Kolkata', 'America/St_Johns', 'Pacific/Kiritimati', 'Africa/Casablanca',
    'Europe/Dublin', 'America/Sao_Paulo', 'Asia/Kathmandu', 'Pacific/Chatham', 'Antarctica/Troll',
    '<+05>-05', '<-03>3', '<+0530>-05:30', '<-0930>9:30', '<+14>-14', '<-12>12',
    'EST5EDT,M3.2.0,M11.1.0', 'CET-1CEST,M3.5.0,M10.5.0/3',
]


def python_order(order):
    if order == 'NATIVE':
        return sys.byteorder
    return 'little' if order == 'LITTLE_ENDIAN' else 'big'


def ref_ssh_mpint(value):
    if value == 0:
        body = b''
    else:
        length = ((value if value >= 0 else ~value).bit_length() // 8) + 1
        body = value.to_bytes(length, 'big', signed=True)
    return len(body).to_bytes(4, 'big') + body


def set_tz(zone):
    os.environ['TZ'] = zone
    time.tzset()


class Check(core.CheckBase):  # pylint: disable=too-many-public-methods
    ID = 'C11'
    TECHNIQUE = 'runtime primitive monitor vs int.to_bytes/from_bytes, RFC 4251 mpint reference, TZ metamorphic oracle'
    RULE = ('integers: every value 0..2^16-1 (thorough: every 3-byte value) for each width/byte order through the '
            'real compose/parse primitives, plus boundary, random and out-of-range values; flags: subsets of every '
            'single-bit IntEnum of the library; mpints: bit lengths 8k-1/8k/8k+1 up to 4096 bits, both signs; '
            'timestamps: instants 1970..2106 under %d TZ settings. distinct = distinct (primitive, parameters, '
            'value-or-chunk); non-trivial = the primitive was actually executed' % len(ZONES))
    SHARDS = {'quick': 4, 'thorough': 16}
    TZ_ROTATION = False     # this check switches TZ itself, zone by zone
    ASSUMPTIONS = (
        'int.to_bytes/from_bytes and calendar arithmetic of CPython are the reference',
        'negative values are out of domain for fixed-length mpints (parse_mpint has no sign); SSH mpints cover both signs',
        'naive datetimes: no opinion on their meaning, only TZ-invariance of the encoding is required',
    )

    def setup(self):
        import cryptoparser.common.parse as parse  # pylint: disable=import-outside-toplevel
        from cryptodatahub.common.exception import InvalidValue  # pylint: disable=import-outside-toplevel
        self.parse = parse
        import cryptoparser.tls.subprotocol as sub  # pylint: disable=import-outside-toplevel
        self.sub = sub
        self.InvalidValue = InvalidValue  # pylint: disable=invalid-name
        from cryptoparser.common.exception import NotEnoughData  # pylint: disable=import-outside-toplevel
        self.NotEnoughData = NotEnoughData  # pylint: disable=invalid-name
        self.flag_classes = {}
        for name, cls in inventory.int_enums().items():
            values = [int(member) for member in cls]
            if values and all(v > 0 and v & (v - 1) == 0 for v in values) and len(set(values)) == len(values) \
                    and len(values) >= 2:
                self.flag_classes[name] = cls
        self.zones = [z for z in ZONES
                      if not ('/' in z or z == 'UTC') or os.path.exists('/usr/share/zoneinfo/' + z)]
        self.original_tz = os.environ.get('TZ')

    # ---------------------------------------------------------------- workload
    def cases(self):  # pylint: disable=too-many-branches
        index = 0
        rng = self.plan_rng
        for size in SIZES:
            for order in ORDERS:
                top = min(2 ** (8 * size), 2 ** 16)
                for start in range(0, top, CHUNK):
                    index += 1
                    if self.mine(index):
                        yield {'kind': 'int-range', 'size': size, 'order': order, 'start': start,
                               'count': min(CHUNK, top - start)}
        if self.tier == 'thorough':
            for order in ORDERS:
                for start in range(2 ** 16, 2 ** 24, CHUNK * 16):
                    index += 1
                    if self.mine(index):
                        yield {'kind': 'int-range', 'size': 3, 'order': order, 'start': start, 'count': CHUNK * 16}
        samples = 60 if self.tier == 'quick' else 4000
        for size in SIZES:
            for order in ORDERS:
                index += 1
                if not self.mine(index):
                    continue
                bits = 8 * size
                values = {0, 1, 2 ** bits - 1, 2 ** bits - 2, 2 ** (bits - 1), 2 ** (bits - 1) - 1, 0x0102030405060708 % 2 ** bits}
                values.update(2 ** k for k in range(bits))
                values.update(2 ** k - 1 for k in range(1, bits))
                values.update(rng.randrange(2 ** bits) for _ in range(samples))
                yield {'kind': 'int-values', 'size': size, 'order': order, 'values': sorted(values)}
                bad = [2 ** bits, 2 ** bits + 1, -1, -2 ** (bits - 1), 2 ** (bits + 8) - 1, 2 ** 64, 2 ** 64 + 5, -2 ** 63]
                if size == 3:
                    bad += [2 ** 32 - 1, 2 ** 24 + 0x010203, 2 ** 31]
                bad += [2 ** bits + rng.randrange(2 ** 40) for _ in range(10)]
                yield {'kind': 'int-out-of-range', 'size': size, 'order': order, 'values': bad}
        # flags
        for name in sorted(self.flag_classes):
            index += 1
            if not self.mine(index):
                continue
            members = list(self.flag_classes[name])
            subsets = [[], [m.name for m in members]] + [[m.name] for m in members]
            for _ in range(40 if self.tier == 'quick' else 1500):
                subsets.append(sorted(m.name for m in members if rng.random() < 0.5))
            yield {'kind': 'flags', 'cls': name, 'subsets': subsets}
        # mpints
        top_bits = 1024 if self.tier == 'quick' else 4096
        step = 8 if self.tier == 'thorough' else 24
        for bits in list(range(0, 72)) + list(range(72, top_bits + 1, step)):
            index += 1
            if not self.mine(index):
                continue
            values = set()
            for width in (bits - 1, bits, bits + 1):
                if width <= 0:
                    values.update([0, 1, -1])
                    continue
                values.update([2 ** width - 1, 2 ** (width - 1), -(2 ** width - 1), -(2 ** (width - 1)),
                               -(2 ** (width - 1)) - 1, -(2 ** (width - 1)) + 1])
                for _ in range(2 if self.tier == 'quick' else 12):
                    rand = rng.getrandbits(width) | (1 << (width - 1))
                    values.update([rand, -rand])
            yield {'kind': 'mpint', 'values': [str(v) for v in sorted(values)]}
        # timestamps
        count = 40 if self.tier == 'quick' else 600
        for block in range(count):
            index += 1
            if not self.mine(index):
                continue
            instants = []
            if block == 0:
                instants = [0, 1, 59, 86399, 86400, 2 ** 31 - 1, 2 ** 31, 2 ** 32 - 2, 1000000000, 1301184000,
                            1301187600, 1319932800, 1414281600, 1477789200, 1193533200, 954000000, 686000000,
                            1450000000, 1462000000]
            for _ in range(24):
                instants.append(rng.randrange(0, 2 ** 32 - 1))
            yield {'kind': 'timestamp', 'instants': instants, 'millis': [rng.randrange(1000) for _ in instants]}
        if self.mine(index + 1):
            yield {'kind': 'timestamp-sentinel'}

    # ---------------------------------------------------------------- oracles
    def judge(self, case):
        handler = getattr(self, 'judge_' + case['kind'].replace('-', '_'))
        try:
            return handler(case)
        finally:
            if case['kind'].startswith('timestamp'):
                if self.original_tz is None:
                    os.environ.pop('TZ', None)
                else:
                    os.environ['TZ'] = self.original_tz
                time.tzset()

    def _order(self, order):
        return self.parse.ByteOrder[order]

    def judge_int_range(self, case):
        size, order = case['size'], case['order']
        values = list(range(case['start'], case['start'] + case['count']))
        self.observe(('int-range', size, order, case['start'], case['count']), True, case)
        found = []
        expected = b''.join(v.to_bytes(size, python_order(order)) for v in values)
        self.stats['int_values_checked'] += len(values)
        try:
            composer = self.parse.ComposerBinary(byte_order=self._order(order))
            composer.compose_numeric_array(values, size)
            composed = bytes(composer.composed)
        except Exception as e:  # pylint: disable=broad-except
            return [self.violation('int|compose-raises:%s|size=%d' % (type(e).__name__, size),
                                   'compose_numeric_array raised %r for in-range values' % e, case)]
        if composed != expected:
            bad = next((v for i, v in enumerate(values) if composed[i * size:(i + 1) * size] !=
                        expected[i * size:(i + 1) * size]), None)
            found.append(self.violation(
                'int|compose-mismatch|size=%d' % size,
                'value %r width %d order %s composed as %s, expected %s' % (
                    bad, size, order, composed[:16].hex(), expected[:16].hex()), case))
        try:
            parser = self.parse.ParserBinary(expected, byte_order=self._order(order))
            parser.parse_numeric_array('values', len(values), size)
            parsed = list(parser['values'])
            consumed = parser.parsed_length
        except Exception as e:  # pylint: disable=broad-except
            return found + [self.violation('int|parse-raises:%s|size=%d' % (type(e).__name__, size),
                                           'parse_numeric_array raised %r on a valid encoding' % e, case)]
        if parsed != values or consumed != len(expected):
            bad = next((v for v, p in zip(values, parsed) if v != p), None)
            found.append(self.violation('int|parse-mismatch|size=%d' % size,
                                        'value %r width %d order %s parsed wrongly (consumed %d of %d)' % (
                                            bad, size, order, consumed, len(expected)), case))
        return found

    def judge_int_values(self, case):
        size, order = case['size'], case['order']
        found = []
        for value in case['values']:
            self.observe(('int', size, order, value), True)
            self.stats['int_values_checked'] += 1
            expected = value.to_bytes(size, python_order(order))
            single = dict(case, values=[value])
            try:
                composer = self.parse.ComposerBinary(byte_order=self._order(order))
                composer.compose_numeric(value, size)
                composed = bytes(composer.composed)
                if composed != expected:
                    found.append(self.violation('int|compose-mismatch|size=%d' % size,
                                                '%r width %d order %s -> %s, expected %s' % (
                                                    value, size, order, composed.hex(), expected.hex()), single))
                parser = self.parse.ParserBinary(expected + b'\xa5\x5a', byte_order=self._order(order))
                parser.parse_numeric('value', size)
                if parser['value'] != value or parser.parsed_length != size:
                    found.append(self.violation('int|parse-mismatch|size=%d' % size,
                                                '%s width %d order %s parsed as %r (consumed %d)' % (
                                                    expected.hex(), size, order, parser['value'],
                                                    parser.parsed_length), single))
            except Exception as e:  # pylint: disable=broad-except
                found.append(self.violation('int|raises:%s|size=%d' % (type(e).__name__, size),
                                            'in-range %r width %d: %r' % (value, size, e), single))
        return found

    def judge_int_out_of_range(self, case):
        size, order = case['size'], case['order']
        found = []
        for value in case['values']:
            self.observe(('int-oor', size, order, value), True, dict(case, values=[value]))
            self.stats['out_of_range_checked'] += 1
            single = dict(case, values=[value])
            for api in ('compose_numeric', 'compose_numeric_array'):
                composer = self.parse.ComposerBinary(byte_order=self._order(order))
                try:
                    if api == 'compose_numeric':
                        composer.compose_numeric(value, size)
                    else:
                        composer.compose_numeric_array([1, value, 2], size)
                except self.InvalidValue:
                    continue
                except Exception as e:  # pylint: disable=broad-except
                    found.append(self.violation(
                        'int|out-of-range-leak:%s|size=%d' % (type(e).__name__, size),
                        '%s(%r, %d) raised %s instead of InvalidValue' % (api, value, size, type(e).__name__), single))
                    continue
                found.append(self.violation(
                    'int|out-of-range-truncated|size=%d' % size,
                    '%s(%r, %d) was accepted and composed as %s (truncation)' % (
                        api, value, size, bytes(composer.composed).hex()), single))
        return found

    def judge_flags(self, case):
        cls = self.flag_classes.get(case['cls'])
        if cls is None:
            cls = inventory.resolve(case['cls'])
        found = []
        top = max(int(m) for m in cls)
        for names in case['subsets']:
            members = {cls[name] for name in names}
            expected = 0
            for member in members:
                expected |= int(member)
            for size in (1, 2, 4, 8):
                for shift in (0, 16):
                    if (top >> shift) >= 2 ** (8 * size):
                        continue
                    self.observe(('flags', case['cls'], tuple(names), size, shift), True,
                                 {'kind': 'flags', 'cls': case['cls'], 'subsets': [names], 'size': size, 'shift': shift})
                    self.stats['flag_sets_checked'] += 1
                    single = {'kind': 'flags', 'cls': case['cls'], 'subsets': [names]}
                    try:
                        composer = self.parse.ComposerBinary()
                        composer.compose_numeric_flags(members, size, shift_right=shift)
                        composed = bytes(composer.composed)
                        want = ((expected >> shift) & (2 ** (8 * size) - 1)).to_bytes(size, 'big')
                        if shift == 0 and composed != want:
                            found.append(self.violation('flags|compose-not-or', '%s %r size %d -> %s, OR is %s' % (
                                cls.__name__, names, size, composed.hex(), want.hex()), single))
                        # the OR does not depend on the kind of collection, its order or on a member given twice
                        ordered = sorted(members, key=int)
                        for label, collection in (('list', ordered), ('reversed-tuple', tuple(reversed(ordered))),
                                                  ('repeated-members', ordered + ordered[:2] + ordered[-1:]),
                                                  ('frozenset', frozenset(members))):
                            other = self.parse.ComposerBinary()
                            other.compose_numeric_flags(collection, size, shift_right=shift)
                            self.stats['flag_collections_checked'] += 1
                            if bytes(other.composed) != composed:
                                found.append(self.violation(
                                    'flags|collection-dependent|' + label, '%s %r size %d shift %d: a %s composes %s, the set %s' % (
                                        cls.__name__, names, size, shift, label, bytes(other.composed).hex(), composed.hex()), single))
                        if shift == 0:
                            parser = self.parse.ParserBinary(composed)
                            parser.parse_numeric_flags('flags', size, cls, shift_left=0)
                            if set(parser['flags']) != members or parser.parsed_length != size:
                                found.append(self.violation('flags|round-trip', '%s %r size %d parsed back as %r' % (
                                    cls.__name__, names, size, sorted(m.name for m in parser['flags'])), single))
                        else:
                            high = {m for m in members if int(m) >> shift}
                            parser = self.parse.ParserBinary(composed)
                            parser.parse_numeric_flags('flags', size, cls, shift_left=shift)
                            if set(parser['flags']) != {m for m in high if (int(m) >> shift) < 2 ** (8 * size)}:
                                found.append(self.violation('flags|round-trip-shifted', '%s %r size %d shift %d -> %r' % (
                                    cls.__name__, names, size, shift, sorted(m.name for m in parser['flags'])), single))
                    except Exception as e:  # pylint: disable=broad-except
                        if shift and isinstance(e, self.InvalidValue):
                            continue
                        found.append(self.violation('flags|raises:%s' % type(e).__name__,
                                                    '%s %r size %d shift %d: %r' % (cls.__name__, names, size, shift, e),
                                                    single))
        return found

    def judge_mpint(self, case):  # pylint: disable=too-many-branches
        found = []
        for text in case['values']:
            value = int(text)
            single = {'kind': 'mpint', 'values': [text]}
            self.observe(('mpint', value), True, single if abs(value) < 2 ** 70 else None)
            self.stats['mpints_checked'] += 1
            sign = 'neg' if value < 0 else 'nonneg'
            # SSH mpint, both signs
            reference = ref_ssh_mpint(value)
            try:
                composer = self.parse.ComposerBinary()
                composer.compose_ssh_mpint(value)
                composed = bytes(composer.composed)
                if value >= 0 and composed != reference:
                    # minimality is demanded for non-negative integers only (statement); negatives: round trip
                    found.append(self.violation(
                        'mpint|ssh-compose-mismatch|' + sign,
                        'compose_ssh_mpint(%d bits, %s) = %s.., RFC 4251 says %s..' % (
                            value.bit_length(), sign, composed[:12].hex(), reference[:12].hex()), single))
                # whatever follows the mpint (the next field of a message) must not leak into it
                for suffix in (b'\x07', b'\xff\x80', b'\x80', b''):
                    parser = self.parse.ParserBinary(composed + suffix)
                    parser.parse_ssh_mpint('value')
                    if parser['value'] != value or parser.parsed_length != len(composed):
                        found.append(self.violation(
                            'mpint|ssh-round-trip|' + sign,
                            'parse_ssh_mpint(compose_ssh_mpint(v) + %s) != v for a %d-bit %s integer (composed %s..): %r' % (
                                suffix.hex(), value.bit_length(), sign, composed[:12].hex(), parser['value']), single))
                        break
            except Exception as e:  # pylint: disable=broad-except
                found.append(self.violation('mpint|ssh-compose-raises:%s|%s' % (type(e).__name__, sign),
                                            'compose_ssh_mpint(%d-bit %s): %r' % (value.bit_length(), sign, e), single))
            if len(reference) > 4:
                # the length field is complete, the body is not
                for present in sorted({4, len(reference) - 1, 4 + (len(reference) - 4) // 2}):
                    self.stats['short_mpint_buffers'] += 1
                    short = self.parse.ParserBinary(reference[:present])
                    try:
                        short.parse_ssh_mpint('value')
                        found.append(self.violation(
                            'mpint|ssh-short-buffer-accepted|' + sign,
                            'parse_ssh_mpint on %d of %d octets returned %r and reports %d octets read' % (
                                present, len(reference), short['value'], short.parsed_length), single))
                        break
                    except self.NotEnoughData:
                        pass
                    except Exception as e:  # pylint: disable=broad-except
                        found.append(self.violation('mpint|ssh-short-buffer-raises:%s|%s' % (type(e).__name__, sign),
                                                    'parse_ssh_mpint on %d of %d octets: %r' % (present, len(reference), e), single))
                        break
            try:
                for suffix in (b'\x01\x02\x03', b'\xff', b'\x80\x00', b''):
                    parser = self.parse.ParserBinary(reference + suffix)
                    parser.parse_ssh_mpint('value')
                    if parser['value'] != value or parser.parsed_length != len(reference):
                        found.append(self.violation(
                            'mpint|ssh-parse-mismatch|' + sign,
                            'parse_ssh_mpint(%s.. + %s) of a %d-bit %s integer returned %r / length %d != %d' % (
                                reference[:12].hex(), suffix.hex(), value.bit_length(), sign, parser['value'], parser.parsed_length,
                                len(reference)), single))
                        break
            except Exception as e:  # pylint: disable=broad-except
                found.append(self.violation('mpint|ssh-parse-raises:%s|%s' % (type(e).__name__, sign),
                                            'parse_ssh_mpint(%d-bit %s): %r' % (value.bit_length(), sign, e), single))
            # fixed-length mpint, non-negative
            if value < 0:
                continue
            minimal = max(1, (value.bit_length() + 7) // 8)
            for length in sorted({minimal, minimal + 1, minimal + 3, ((minimal + 3) // 4) * 4, minimal + 17}):
                want = value.to_bytes(length, 'big')
                try:
                    composer = self.parse.ComposerBinary()
                    composer.compose_mpint(value, length)
                    composed = bytes(composer.composed)
                    if composed != want:
                        found.append(self.violation(
                            'mpint|fixed-compose-mismatch',
                            'compose_mpint(%d-bit value, length=%d) = %s.. expected %s..' % (
                                value.bit_length(), length, composed[:12].hex(), want[:12].hex()), single))
                    parser = self.parse.ParserBinary(want + b'\xee')
                    parser.parse_mpint('value', length)
                    if parser['value'] != value or parser.parsed_length != length:
                        found.append(self.violation(
                            'mpint|fixed-parse-mismatch',
                            'parse_mpint(length=%d) of a %d-bit value returned a different value' % (
                                length, value.bit_length()), single))
                    # fewer octets than the field is wide: nothing to read a value from (no value made of what is there)
                    for present in sorted({0, 1, length // 2, length - 1}):
                        if not 0 <= present < length:
                            continue
                        self.stats['short_mpint_buffers'] += 1
                        short = self.parse.ParserBinary(want[:present])
                        try:
                            short.parse_mpint('value', length)
                            found.append(self.violation(
                                'mpint|fixed-short-buffer-accepted',
                                'parse_mpint(length=%d) on %d octets returned %r and reports %d octets read' % (
                                    length, present, short['value'], short.parsed_length), single))
                            break
                        except self.NotEnoughData:
                            pass
                except Exception as e:  # pylint: disable=broad-except
                    found.append(self.violation('mpint|fixed-raises:%s' % type(e).__name__,
                                                'fixed mpint %d-bit length %d: %r' % (value.bit_length(), length, e),
                                                single))
            if minimal > 1 or value > 255:
                try:
                    composer = self.parse.ComposerBinary()
                    composer.compose_mpint(value, minimal - 1)
                    found.append(self.violation(
                        'mpint|fixed-truncated', 'compose_mpint(%d-bit value, length=%d) accepted: %s' % (
                            value.bit_length(), minimal - 1, bytes(composer.composed)[:12].hex()), single))
                except self.InvalidValue:
                    pass
                except Exception as e:  # pylint: disable=broad-except
                    found.append(self.violation('mpint|fixed-too-short-leak:%s' % type(e).__name__,
                                                'compose_mpint too short: %r' % e, single))
        return found

    def _compose_ts(self, value, milliseconds, item_size):
        composer = self.parse.ComposerBinary()
        composer.compose_timestamp(value, milliseconds=milliseconds, item_size=item_size)
        return bytes(composer.composed)

    def judge_timestamp(self, case):  # pylint: disable=too-many-locals,too-many-branches
        found = []
        for seconds, millis in zip(case['instants'], case['millis']):
            single = {'kind': 'timestamp', 'instants': [seconds], 'millis': [millis]}
            self.observe(('ts', seconds, millis), True, single)
            aware = datetime.datetime.fromtimestamp(seconds, UTC) + datetime.timedelta(milliseconds=millis)
            aware_sec = datetime.datetime.fromtimestamp(seconds, UTC)
            offset_zone = datetime.timezone(datetime.timedelta(hours=5, minutes=30))
            variants = {
                'aware-utc': aware, 'aware-offset': aware.astimezone(offset_zone),
                'naive': aware.replace(tzinfo=None),
            }
            reference = {}
            for zone in self.zones:
                set_tz(zone)
                self.stats['timestamp_tz_evaluations'] += 1
                # the instant the class fills in by itself is "now", whatever the zone of the process (minutes of tolerance
                # against zone offsets of a quarter of an hour and more)
                try:
                    before = time.time()
                    chosen = int.from_bytes(bytes(self.sub.TlsHandshakeHelloRandom().compose())[:4], 'big')
                    self.stats['default_instants_checked'] += 1
                    if not before - 300 <= chosen <= time.time() + 300:
                        found.append(self.violation(
                            'timestamp|hello-random-default-time',
                            'a hello random built without a time carries %d under TZ=%s, the clock says %d' % (
                                chosen, zone, int(before)), single))
                except Exception as e:  # pylint: disable=broad-except
                    found.append(self.violation('timestamp|hello-random-default-raises:%s' % type(e).__name__,
                                                'TlsHandshakeHelloRandom() under TZ=%s: %r' % (zone, e), single))
                for kind, value in variants.items():
                    for item_size, milliseconds in ((8, False), (8, True), (4, False)):
                        tag = (kind, item_size, milliseconds)
                        try:
                            composed = self._compose_ts(value if milliseconds else value.replace(microsecond=0),
                                                        milliseconds, item_size)
                        except Exception as e:  # pylint: disable=broad-except
                            found.append(self.violation(
                                'timestamp|compose-raises:%s|%s' % (type(e).__name__, kind),
                                'compose_timestamp(%s, ms=%s, size=%d) under TZ=%s: %r' % (
                                    value.isoformat(), milliseconds, item_size, zone, e), single))
                            continue
                        if tag not in reference:
                            reference[tag] = (zone, composed)
                        elif reference[tag][1] != composed:
                            found.append(self.violation(
                                'timestamp|tz-dependent|%s' % kind,
                                'compose_timestamp(%s, ms=%s, size=%d) = %s under TZ=%s but %s under TZ=%s' % (
                                    value.isoformat(), milliseconds, item_size, reference[tag][1].hex(),
                                    reference[tag][0], composed.hex(), zone), single))
                        if kind != 'naive':
                            want = (seconds * 1000 + millis) if milliseconds else seconds
                            if composed != want.to_bytes(item_size, 'big'):
                                found.append(self.violation(
                                    'timestamp|wrong-instant|%s' % kind,
                                    'compose_timestamp(%s, ms=%s, size=%d) = %s under TZ=%s, epoch value is %d' % (
                                        value.isoformat(), milliseconds, item_size, composed.hex(), zone, want),
                                    single))
                # the other place where the library writes an instant with its own arithmetic: gmt_unix_time of the hello random
                if seconds < 2 ** 32:
                    for kind, value in variants.items():
                        self.stats['hello_random_evaluations'] += 1
                        try:
                            hello_random = self.sub.TlsHandshakeHelloRandom(
                                value.replace(microsecond=0), self.sub.TlsHandshakeHelloRandomBytes(bytearray(28)))
                            composed = bytes(hello_random.compose())[:4]
                            parsed = self.sub.TlsHandshakeHelloRandom.parse_exact_size(seconds.to_bytes(4, 'big') + bytes(28)).time
                        except Exception as e:  # pylint: disable=broad-except
                            found.append(self.violation('timestamp|hello-random-raises:%s|%s' % (type(e).__name__, kind),
                                                        'hello random for %s under TZ=%s: %r' % (value.isoformat(), zone, e), single))
                            continue
                        if composed != seconds.to_bytes(4, 'big'):
                            found.append(self.violation(
                                'timestamp|hello-random-wrong-instant|%s' % kind,
                                'gmt_unix_time of a hello random built with %s is %s under TZ=%s, the epoch value is %d' % (
                                    value.isoformat(), composed.hex(), zone, seconds), single))
                        if parsed.replace(tzinfo=UTC) != aware_sec if parsed.tzinfo is None else parsed != aware_sec:
                            found.append(self.violation(
                                'timestamp|hello-random-parse-mismatch',
                                'gmt_unix_time %d parsed under TZ=%s as %r' % (seconds, zone, parsed), single))
                # parse side
                for item_size, milliseconds in ((8, False), (8, True), (4, False)):
                    number = (seconds * 1000 + millis) if milliseconds else seconds
                    try:
                        parser = self.parse.ParserBinary(number.to_bytes(item_size, 'big') + b'\x00')
                        parser.parse_timestamp('t', milliseconds=milliseconds, item_size=item_size)
                        got = parser['t']
                        want = aware if milliseconds else aware_sec
                        if got is None or got.tzinfo is None or got != want or parser.parsed_length != item_size:
                            found.append(self.violation(
                                'timestamp|parse-mismatch',
                                'parse_timestamp(%d, ms=%s, size=%d) under TZ=%s gave %r, expected %s' % (
                                    number, milliseconds, item_size, zone, got, want.isoformat()), single))
                    except Exception as e:  # pylint: disable=broad-except
                        found.append(self.violation('timestamp|parse-raises:%s' % type(e).__name__,
                                                    'parse_timestamp(%d) under TZ=%s: %r' % (number, zone, e), single))
        dedup = {}
        for violation in found:
            dedup.setdefault(violation.key, violation)
        return list(dedup.values())

    def judge_timestamp_sentinel(self, case):
        found = []
        for item_size in (4, 8):
            self.observe(('ts-sentinel', item_size), True, {'kind': 'timestamp-sentinel', 'item_size': item_size})
            self.stats['sentinel_checked'] += 1
            want = b'\xff' * item_size
            try:
                composed = self._compose_ts(None, False, item_size)
                if composed != want:
                    found.append(self.violation('timestamp|sentinel-compose|size=%d' % item_size,
                                                'None composed as %s' % composed.hex(), case))
            except Exception as e:  # pylint: disable=broad-except
                found.append(self.violation('timestamp|sentinel-compose|size=%d' % item_size,
                                            'the "forever" sentinel cannot be composed with %d bytes: %r' % (item_size, e),
                                            case))
            for milliseconds in (False, True):
                for order in (None, ) + tuple(ORDERS):
                    try:
                        parser = self.parse.ParserBinary(want) if order is None else \
                            self.parse.ParserBinary(want, byte_order=self.parse.ByteOrder[order])
                        parser.parse_timestamp('t', milliseconds=milliseconds, item_size=item_size)
                        self.stats['sentinel_parses'] += 1
                        if parser['t'] is not None:
                            found.append(self.violation('timestamp|sentinel-parse|size=%d' % item_size,
                                                        'all-ones (milliseconds=%s) parsed as %r' % (milliseconds, parser['t']), case))
                    except Exception as e:  # pylint: disable=broad-except
                        found.append(self.violation('timestamp|sentinel-parse|size=%d' % item_size, repr(e), case))
                try:
                    composer = self.parse.ComposerBinary()
                    composer.compose_timestamp(None, milliseconds=milliseconds, item_size=item_size)
                    if bytes(composer.composed) != want:
                        found.append(self.violation('timestamp|sentinel-compose|size=%d' % item_size,
                                                    'None (milliseconds=%s) composed as %s' % (milliseconds, bytes(composer.composed).hex()), case))
                except Exception as e:  # pylint: disable=broad-except
                    found.append(self.violation('timestamp|sentinel-compose|size=%d' % item_size, repr(e), case))
        found.extend(self.fixed_width_instants(case))
        return found

    def fixed_width_instants(self, case):
        """In a field that is always an instant (gmt_unix_time, RRSIG expiration / inception) every 32-bit value is one,
        the largest included: all-ones is not "no value" there."""
        from vmon.ref import dns as ref_dns  # pylint: disable=import-outside-toplevel
        import cryptoparser.dnsrec.record as record  # pylint: disable=import-outside-toplevel
        found = []
        for seconds in (2 ** 32 - 1, 2 ** 32 - 2, 2 ** 31, 0):
            want = datetime.datetime.fromtimestamp(seconds, UTC)
            readers = (
                ('hello-random', lambda: self.sub.TlsHandshakeHelloRandom.parse_exact_size(seconds.to_bytes(4, 'big') + bytes(28)).time),
                ('rrsig-expiration', lambda: record.DnsRecordRrsig.parse_exact_size(
                    ref_dns.rrsig(1, 8, 2, 3600, seconds, 5, 7, [b'example', b'com'], b'\x01' * 8)).signature_expiration),
                ('rrsig-inception', lambda: record.DnsRecordRrsig.parse_exact_size(
                    ref_dns.rrsig(1, 8, 2, 3600, 5, seconds, 7, [b'example', b'com'], b'\x01' * 8)).signature_inception),
            )
            for field, reader in readers:
                self.stats['fixed_width_instants_read'] += 1
                self.observe(('fixed-instant', field, seconds), True, {'kind': 'timestamp-sentinel', 'field': field, 'seconds': seconds})
                try:
                    got = reader()
                except Exception as e:  # pylint: disable=broad-except
                    found.append(self.violation('timestamp|fixed-field-raises|%s' % field,
                                                '%s holding %d (%s) cannot be read: %r' % (field, seconds, want.isoformat(), e), case))
                    continue
                if not isinstance(got, datetime.datetime) or (got.replace(tzinfo=UTC) if got.tzinfo is None else got) != want:
                    found.append(self.violation('timestamp|fixed-field-wrong|%s' % field,
                                                '%s holding %d is read as %r, the instant is %s' % (field, seconds, got, want.isoformat()),
                                                case))
        return found

    def floors(self):
        return {'int_values_checked': 5 * 10 ** 5, 'out_of_range_checked': 100, 'flag_sets_checked': 100,
                'mpints_checked': 300, 'timestamp_tz_evaluations': 1000, 'sentinel_checked': 2}

    def finish(self):
        return {'time_zones': self.zones, 'flag_classes': sorted(c.split(':')[1] for c in self.flag_classes)}
