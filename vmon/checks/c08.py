# -*- coding: utf-8 -*-
"""C08 - DNSSEC and mail-related DNS record data follow the RFCs, key tag included.

Differential monitor vs. vmon/ref/dns.py (RDATA layouts) and the RFC 4034 Appendix B key tag reference.
"""
from vmon.checks import differential


class Check(differential.DifferentialCheck):
    ID = 'C08'
    TECHNIQUE = 'runtime differential monitor vs. an independent RFC 1035/3110/4034/5933/6605/8080 RDATA encoder and the RFC 4034 App. B key tag'
    RULE = ('one case = one generated DNSKEY (RSA with 1- and 3-byte exponent length forms and arbitrary modulus bit lengths, '
            'RSAMD5, DSA, ECDSA P-256/P-384, GOST, Ed25519, Ed448; all flag subsets), DS, RRSIG (known and private RR types, '
            'full 32-bit times), MX, uncompressed name (incl. IDNA labels, root) or TXT (single, multi-string, > 255 bytes) '
            'built through the library constructors and the reference encoder; distinct = SHA-1 of (class, reference bytes); '
            'non-trivial = every case')
    BLOCKS = {'quick': 60, 'thorough': 16000}
    PER_BLOCK = 60
    ASSUMPTIONS = ('vmon/ref/dns.py is my reading of RFC 1035/2536/3110/4034/5933/6605/8080', )

    def generator(self):
        from vmon.gen import dns  # pylint: disable=import-outside-toplevel
        return dns

    def extra_oracles(self, pair, parsed, case):
        found = []
        extra = pair.extra
        if 'key_tag' in extra:
            for label, obj in (('parsed', parsed), ('constructed', pair.obj)):
                self.stats['key_tags_compared'] += 1
                try:
                    tag = obj.key_tag
                except Exception as e:  # pylint: disable=broad-except
                    found.append(self.violation('key-tag-raises|%s|%s' % (extra['kind'], type(e).__name__),
                                                'key_tag of the %s record raised %r' % (label, e), case))
                    continue
                if label == 'constructed':
                    # the constructed object's tag is defined over ITS OWN composed RDATA: only comparable when that is conformant
                    try:
                        if bytes(obj.compose()) != pair.wire:
                            continue
                    except Exception:  # pylint: disable=broad-except
                        continue
                if tag != extra['key_tag']:
                    found.append(self.violation(
                        'key-tag-mismatch|%s|%s-length-rdata%s' % ('rsamd5' if extra['kind'] == 'rsamd5' else 'appendix-b',
                                                                 'odd' if extra['rdata_odd'] else 'even', pair.key_suffix),
                        '%s: key_tag of the %s record is %d, RFC 4034 Appendix B gives %d (RDATA of %d bytes)' % (
                            pair.label, label, tag, extra['key_tag'], len(pair.wire)), case))
        if 'any_split' in extra:
            self.stats['txt_split_checks'] += 1
            try:
                composed = bytes(pair.obj.compose())
                position, joined = 0, b''
                while position < len(composed):
                    length = composed[position]
                    joined += composed[position + 1:position + 1 + length]
                    if position + 1 + length > len(composed):
                        joined = None
                        break
                    position += 1 + length
                if joined != extra['any_split']:
                    found.append(self.violation('compose-differs|DnsRecordTxt+long',
                                                'a %d-byte TXT value is not composed as a sequence of character-strings' % len(extra['any_split']),
                                                case))
            except Exception as e:  # pylint: disable=broad-except
                from vmon import roundtrip  # pylint: disable=import-outside-toplevel
                found.append(self.violation(roundtrip.exc_key('compose-raises', e) + '+long',
                                            'a %d-byte TXT value cannot be composed: %r' % (len(extra['any_split']), e), case))
        return found

    def floors(self):
        floors = super(Check, self).floors()
        floors['key_tags_compared'] = 200
        return floors
