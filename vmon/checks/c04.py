# -*- coding: utf-8 -*-
"""C04 - incremental reads guided by the missing-byte count reassemble the stream.

Oracle A (per prefix): every proper prefix of a composed record must be rejected with NotEnoughData whose
count is >= 1 and <= the number of bytes really missing. Oracle B (history at the client boundary): a
simulated reader that obeys exactly the documented contract reads a chunked stream of records; it must
never wait for more than the sender wrote for the record in progress, never accept a proper prefix and
end with exactly the original sequence.
"""
import random

from vmon import core, inventory, pipeline, structural

STREAMS = {'quick': 12, 'thorough': 8000}
EXHAUSTIVE_PREFIX_LIMIT = 4096


def layers():
    """layer name -> list of class names that frame that layer."""
    return {
        'tls-record': ['cryptoparser.tls.record:TlsRecord'],
        'ssl2-record': ['cryptoparser.tls.record:SslRecord'],
        'ssh-packet': ['cryptoparser.ssh.record:SshRecordInit', 'cryptoparser.ssh.record:SshRecordKexDH',
                       'cryptoparser.ssh.record:SshRecordKexDHGroup'],
        'mysql-packet': ['cryptoparser.tls.mysql:MySQLRecord'],
        'tpkt': ['cryptoparser.tls.rdp:TPKT'],
        'openvpn-tcp': ['cryptoparser.tls.openvpn:OpenVpnPacketWrapperTcp'],
        'ldap': ['cryptoparser.tls.ldap:LDAPExtendedRequestStartTLS', 'cryptoparser.tls.ldap:LDAPExtendedResponseStartTLS'],
        'postgresql': ['cryptoparser.tls.postgresql:SslRequest', 'cryptoparser.tls.postgresql:Sync'],
        'tls-handshake': ['cryptoparser.tls.subprotocol:TlsHandshakeMessageVariant',
                          'cryptoparser.tls.subprotocol:TlsHandshakeClientHello',
                          'cryptoparser.tls.subprotocol:TlsHandshakeServerHello',
                          'cryptoparser.tls.subprotocol:TlsHandshakeCertificate',
                          'cryptoparser.tls.subprotocol:TlsHandshakeServerKeyExchange',
                          'cryptoparser.tls.subprotocol:TlsHandshakeCertificateRequest',
                          'cryptoparser.tls.subprotocol:TlsHandshakeCertificateStatus',
                          'cryptoparser.tls.subprotocol:TlsHandshakeServerHelloDone',
                          'cryptoparser.tls.subprotocol:TlsHandshakeHelloRetryRequest'],
    }


def parse_owner(cls):
    for klass in cls.__mro__:
        if '_parse' in klass.__dict__:
            return klass.__name__
    return cls.__name__


class Check(core.CheckBase):
    ID = 'C04'
    TECHNIQUE = 'runtime per-prefix monitor (exhaustive prefixes) + simulated incremental reader over chunked record streams'
    RULE = ('records: compose() of every object parsed from the seed corpus for the record classes of each layer, plus '
            'constructor-built records with payload sizes 0,1,2,255,256,16384,65535-ish; oracle A on EVERY proper prefix '
            '(exhaustive up to 4096 bytes, header + stride above); oracle B on random record sequences cut into chunks '
            'with every cut position possible (sizes 1,2,3,random,whole). distinct = (class, record, prefix length) / '
            '(layer, stream id); non-trivial = prefix length >= 1 or stream with >= 2 chunks')
    SHARDS = {'quick': 8, 'thorough': 16}
    ASSUMPTIONS = ('the SSH identification line is line-oriented, not a record: its prefixes are outside this verdict '
                   '(they raise InvalidValue by design; observed and counted only)', )

    def setup(self):
        from cryptoparser.common.exception import NotEnoughData  # pylint: disable=import-outside-toplevel
        self.NotEnoughData = NotEnoughData  # pylint: disable=invalid-name
        self.allowed = pipeline.parse_errors()
        self.corpus = pipeline.corpus_by_class()
        self.classes = inventory.parsable_classes(concrete_only=False)
        self.records = {}

    def records_of(self, name):
        """Composed valid records of a class (canonical bytes), deterministic order."""
        if name in self.records:
            return self.records[name]
        cls = self.classes.get(name)
        result = []
        seen = set()
        if cls is not None:
            for data in self.corpus.get(name, []):
                try:
                    obj, _ = cls.parse_immutable(data)
                    composed = pipeline.compose_of(obj, cls)
                    again, consumed = cls.parse_immutable(composed)
                    if consumed != len(composed) or not structural.equal(again, obj):
                        continue    # not a valid self-consistent record: C01/C05's business
                except Exception:  # pylint: disable=broad-except
                    continue
                if composed not in seen:
                    seen.add(composed)
                    result.append(composed)
            for composed in self.synthesized(name):
                if composed not in seen:
                    seen.add(composed)
                    result.append(composed)
            for composed in self.reference_records().get(name, []):
                if composed not in seen:
                    seen.add(composed)
                    result.append(composed)
        self.records[name] = result
        return result

    def reference_records(self):
        """Records written by the independent reference encoders (vmon/ref) for generator-built values: valid by
        construction, so they are NOT filtered by what the library accepts (header forms and sizes the library's own
        compose never produces: SSL 2.0 bodies around 2^14, padded three-byte headers, long BER lengths)."""
        if not hasattr(self, '_reference_records'):
            import importlib  # pylint: disable=import-outside-toplevel
            wanted = set(name for names in layers().values() for name in names)
            found = {}
            for family in ('tls', 'ssh', 'opp'):
                rng = random.Random('C04/reference/%s' % family)
                for pair in importlib.import_module('vmon.gen.' + family).generate(rng, 1500):
                    name = inventory.class_name(pair.cls)
                    if name in wanted and len(found.setdefault(name, [])) < 24 and pair.wire not in found[name]:
                        # a few per (class, label) so that rare labels (padded, large) are not crowded out
                        labels = self.notes.setdefault('reference_labels', {})
                        count = labels.get((name, pair.label), 0)
                        if count < 6:
                            labels[(name, pair.label)] = count + 1
                            found[name].append(pair.wire)
            self.notes.pop('reference_labels', None)
            self._reference_records = found
            self.stats['reference_records'] += sum(len(wires) for wires in found.values())
        return self._reference_records

    def synthesized(self, name):
        rng = random.Random('C04/synth/%s' % name)
        sizes = [0, 1, 2, 3, 255, 256, 257, 1000, 16384, 40000]
        built = []
        short = name.split(':')[1]
        try:
            if short == 'TlsRecord':
                import cryptoparser.tls.record as record  # pylint: disable=import-outside-toplevel
                import cryptoparser.tls.subprotocol as sub  # pylint: disable=import-outside-toplevel
                for size in sizes + [65535]:
                    for content_type in sub.TlsContentType:
                        built.append(record.TlsRecord(bytes(rng.randrange(256) for _ in range(min(size, 300))) +
                                                      b'\x00' * max(0, size - 300), content_type=content_type))
            elif short == 'MySQLRecord':
                import cryptoparser.tls.mysql as mysql  # pylint: disable=import-outside-toplevel
                for size in sizes + [65536, 70000]:
                    built.append(mysql.MySQLRecord(rng.randrange(256), b'\x07' * size))
            elif short == 'TPKT':
                import cryptoparser.tls.rdp as rdp  # pylint: disable=import-outside-toplevel
                for size in sizes + [65531]:
                    built.append(rdp.TPKT(3, b'\x09' * size))
            elif short == 'OpenVpnPacketWrapperTcp':
                import cryptoparser.tls.openvpn as openvpn  # pylint: disable=import-outside-toplevel
                for size in sizes + [65535]:
                    built.append(openvpn.OpenVpnPacketWrapperTcp(b'\x0b' * size))
            elif short == 'TlsHandshakeServerKeyExchange':
                import cryptoparser.tls.subprotocol as sub  # pylint: disable=import-outside-toplevel
                for size in sizes + [70000]:
                    built.append(sub.TlsHandshakeServerKeyExchange(b'\x0c' * size))
        except Exception:  # pylint: disable=broad-except
            pass
        result = []
        cls = self.classes.get(name)
        for obj in built:
            try:
                composed = bytes(obj.compose())
                again, consumed = cls.parse_immutable(composed)
                if consumed == len(composed):
                    result.append(composed)
            except Exception:  # pylint: disable=broad-except
                continue
        return result

    # ------------------------------------------------------------------ workload
    def cases(self):
        index = 0
        for layer, names in sorted(layers().items()):
            for name in names:
                for number in range(len(self.records_of(name))):
                    index += 1
                    if self.mine(index):
                        yield {'kind': 'prefixes', 'layer': layer, 'cls': name, 'record': number}
            for number in range(STREAMS[self.tier]):
                index += 1
                if self.mine(index):
                    yield {'kind': 'stream', 'layer': layer, 'rng': 'C04/%s/%s/%d' % (self.seed, layer, number)}
            # every kind of unit of the layer once in a stream where something follows it, delivered whole and in big pieces:
            # a unit is cut off at its own end whatever is already in the buffer behind it
            for number in range(3):
                index += 1
                if self.mine(index):
                    yield {'kind': 'stream', 'layer': layer, 'rng': 'C04/%s/%s/all-%d' % (self.seed, layer, number), 'all': number + 1}
        for number in range(STREAMS[self.tier]):
            index += 1
            if self.mine(index):
                yield {'kind': 'fragmented-handshake', 'rng': 'C04/%s/fragmented/%d' % (self.seed, number)}
        index += 1
        if self.mine(index):
            yield {'kind': 'banner-observation'}

    def judge(self, case):
        return getattr(self, 'judge_' + case['kind'].replace('-', '_'))(case)

    # ------------------------------------------------------------------ oracle A
    def check_prefix(self, cls, record, length, case, found, owner):
        prefix = record[:length]
        missing = len(record) - length
        self.stats['prefixes_judged'] += 1
        single = dict(case, kind='prefix', hex=record.hex() if len(record) <= 4096 else None, length=length)
        if single['hex'] is None:
            single = dict(case, length=length)
        try:
            _, consumed = cls.parse_immutable(prefix)
        except self.NotEnoughData as e:
            needed = e.bytes_needed
            if not isinstance(needed, int) or isinstance(needed, bool) or needed < 1:
                found.append(self.violation('bytes-needed-not-positive|%s' % owner,
                                            '%s: prefix of %d/%d bytes reports bytes_needed=%r' % (
                                                cls.__name__, length, len(record), needed), single))
            elif needed > missing:
                found.append(self.violation('bytes-needed-too-large|%s' % owner,
                                            '%s: prefix of %d/%d bytes asks for %d more, only %d are missing (reader would '
                                            'block forever)' % (cls.__name__, length, len(record), needed, missing), single))
            return
        except Exception as e:  # pylint: disable=broad-except
            found.append(self.violation('prefix-wrong-error:%s|%s' % (type(e).__name__, owner),
                                        '%s: proper prefix of %d/%d bytes is rejected with %s, not NotEnoughData' % (
                                            cls.__name__, length, len(record), type(e).__name__), single))
            return
        found.append(self.violation('prefix-accepted|%s' % owner,
                                    '%s: proper prefix of %d/%d bytes accepted as a complete record (n=%d)' % (
                                        cls.__name__, length, len(record), consumed), single))

    def judge_prefix(self, case):
        cls = self.classes[case['cls']]
        record = bytes.fromhex(case['hex']) if case.get('hex') else self.records_of(case['cls'])[case['record']]
        found = []
        self.check_prefix(cls, record, case['length'], case, found, parse_owner(cls))
        return found

    def judge_prefixes(self, case):
        cls = self.classes[case['cls']]
        records = self.records_of(case['cls'])
        if case['record'] >= len(records):
            return []
        record = records[case['record']]
        owner = parse_owner(cls)
        found = []
        if len(record) <= EXHAUSTIVE_PREFIX_LIMIT:
            lengths = range(len(record))
        else:
            step = max(1, len(record) // 512)
            lengths = sorted(set(list(range(0, 64)) + list(range(0, len(record), step)) +
                                 list(range(len(record) - 32, len(record)))))
        for length in lengths:
            self.observe((case['cls'], record, length), length >= 1,
                         {'cls': case['cls'], 'record_len': len(record), 'prefix_len': length, 'record_hex': record[:24].hex()})
            before = len(found)
            self.check_prefix(cls, record, length, case, found, owner)
            if len(found) > before and len(found) >= 3:
                break
        dedup = {}
        for violation in found:
            dedup.setdefault(violation.key, violation)
        return list(dedup.values())

    # ------------------------------------------------------------------ oracle B
    def chunks(self, stream, rng):
        mode = rng.choice(('ones', 'twos', 'threes', 'random', 'random', 'big', 'whole'))
        position = 0
        while position < len(stream):
            if mode == 'ones':
                size = 1
            elif mode == 'twos':
                size = 2
            elif mode == 'threes':
                size = 3
            elif mode == 'random':
                size = rng.choice((1, 1, 2, 3, 4, 5, 7, 16, 100, 1000))
            elif mode == 'big':
                size = rng.randrange(1, 5000)
            else:
                size = len(stream)
            yield stream[position:position + size]
            position += size

    def reader(self, cls, chunks, boundaries):
        """The documented client loop. Returns (objects, problem or None). `boundaries` = cumulative record ends,
        known to the *harness* only, to decide 'asks for more than the sender will ever write for this record'."""
        buffer = bytearray()
        received = 0
        consumed_total = 0
        waiting_for = 0
        objects = []
        for chunk in list(chunks) + [None]:
            if chunk is not None:
                buffer += chunk
                received += len(chunk)
                if len(buffer) < waiting_for:
                    continue
            while buffer:
                if len(buffer) < waiting_for:
                    break
                size_before = len(buffer)
                try:
                    obj = cls.parse_mutable(buffer)
                except self.NotEnoughData as e:
                    needed = e.bytes_needed
                    if not isinstance(needed, int) or needed < 1:
                        return objects, ('bytes-needed-not-positive', 'reader got bytes_needed=%r' % (needed, ))
                    waiting_for = size_before + needed
                    record_end = next((end for end in boundaries if end > consumed_total), None)
                    if record_end is None or consumed_total + waiting_for > record_end:
                        return objects, ('reader-deadlock',
                                         'with %d bytes of the record in progress buffered the reader is told to wait for %d '
                                         'more, but the record ends after %d more bytes' % (
                                             size_before, needed, (record_end or consumed_total) - consumed_total - size_before))
                    break
                except Exception as e:  # pylint: disable=broad-except
                    return objects, ('reader-error:%s' % type(e).__name__, 'parse_mutable raised %r mid-stream' % e)
                used = size_before - len(buffer)
                if used <= 0:
                    return objects, ('reader-no-progress', 'parse_mutable consumed %d bytes' % used)
                consumed_total += used
                waiting_for = 0
                objects.append((obj, consumed_total))
            if chunk is None:
                break
        if buffer:
            return objects, ('reader-residue', '%d bytes left unparsed after the whole stream was delivered' % len(buffer))
        return objects, None

    def judge_stream(self, case):
        rng = random.Random(case['rng'])
        names = [name for name in layers()[case['layer']] if self.records_of(name)]
        if not names:
            return []
        name = rng.choice(names)
        if case['layer'] == 'tls-handshake':
            name = 'cryptoparser.tls.subprotocol:TlsHandshakeMessageVariant'
            pool = [r for n in layers()[case['layer']] for r in self.records_of(n)]
        else:
            pool = self.records_of(name)
        cls = self.classes[name]
        records = [rng.choice(pool) for _ in range(rng.randrange(1, 9))]
        if case.get('all'):
            if case['layer'] != 'tls-handshake':
                pool = [r for n in names for r in self.records_of(n)] if all(
                    self.classes[n] is cls or issubclass(self.classes[n], cls) for n in names) else pool
            records, total = [], 0
            for record in sorted(set(pool), key=lambda r: (len(r), r)):
                if total + 2 * len(record) > 400000:
                    break
                records.append(record)
                total += len(record)
            rng.shuffle(records)
            records = records + records[:1]       # the first kind is followed by something, the last one too
        if sum(len(r) for r in records) > 300000 and not case.get('all'):
            records = records[:2]
        stream = b''.join(records)
        boundaries = []
        total = 0
        for record in records:
            total += len(record)
            boundaries.append(total)
        chunks = list(self.chunks(stream, rng))
        if case.get('all'):
            size = {1: len(stream), 2: 4096, 3: 257}[case['all']]
            chunks = [stream[position:position + size] for position in range(0, len(stream), size)]
            self.stats['streams_with_every_unit'] += 1
        self.stats['streams'] += 1
        self.stats['chunks_delivered'] += len(chunks)
        self.observe((case['layer'], case['rng']), len(chunks) >= 2,
                     {'layer': case['layer'], 'cls': name, 'records': len(records), 'bytes': len(stream), 'chunks': len(chunks)})
        objects, problem = self.reader(cls, chunks, boundaries)
        found = []
        if problem is not None:
            found.append(self.violation('%s|%s' % (problem[0], case['layer']), '%s: %s' % (name.split(':')[1], problem[1]), case))
            return found
        ends = [end for _, end in objects]
        if ends != boundaries:
            found.append(self.violation('reader-wrong-framing|%s' % case['layer'],
                                        '%s: records end at %r but the reader cut the stream at %r' % (
                                            name.split(':')[1], boundaries[:6], ends[:6]), case))
            return found
        for (obj, _), record in zip(objects, records):
            expected, _ = cls.parse_immutable(record)
            if not structural.equal(obj, expected):
                found.append(self.violation('reader-wrong-object|%s' % case['layer'],
                                            '%s: a record read incrementally differs from the record parsed whole' % name.split(':')[1],
                                            case))
                break
        return found

    def judge_fragmented_handshake(self, case):
        """Handshake messages fragmented over TLS records: record reader feeds a handshake reader."""
        import cryptoparser.tls.record as record_module  # pylint: disable=import-outside-toplevel
        import cryptoparser.tls.subprotocol as sub  # pylint: disable=import-outside-toplevel
        rng = random.Random(case['rng'])
        pool = [r for n in layers()['tls-handshake'] for r in self.records_of(n) if len(r) < 20000]
        if not pool:
            return []
        messages = [rng.choice(pool) for _ in range(rng.randrange(1, 6))]
        handshake_stream = b''.join(messages)
        fragments = []
        position = 0
        while position < len(handshake_stream):
            size = rng.choice((1, 2, 3, 4, 5, 17, 100, 1000, 16384))
            fragments.append(handshake_stream[position:position + size])
            position += size
        records = [bytes(record_module.TlsRecord(fragment).compose()) for fragment in fragments]
        wire = b''.join(records)
        record_boundaries = []
        total = 0
        for record in records:
            total += len(record)
            record_boundaries.append(total)
        chunks = list(self.chunks(wire, rng))
        self.stats['fragmented_handshake_streams'] += 1
        self.observe(('fragmented', case['rng']), len(records) >= 2,
                     {'messages': len(messages), 'tls_records': len(records), 'chunks': len(chunks)})
        found = []
        objects, problem = self.reader(record_module.TlsRecord, chunks, record_boundaries)
        if problem is not None:
            return [self.violation('%s|tls-record-under-handshake' % problem[0], problem[1], case)]
        message_boundaries = []
        total = 0
        for message in messages:
            total += len(message)
            message_boundaries.append(total)
        handshake_chunks = [bytes(obj.fragment) for obj, _ in objects]
        parsed, problem = self.reader(sub.TlsHandshakeMessageVariant, handshake_chunks, message_boundaries)
        if problem is not None:
            return [self.violation('%s|fragmented-handshake' % problem[0], problem[1], case)]
        if [end for _, end in parsed] != message_boundaries:
            found.append(self.violation('reader-wrong-framing|fragmented-handshake',
                                        'handshake messages re-assembled from record fragments are cut at the wrong places', case))
        return found

    def judge_banner_observation(self, case):
        """Not a verdict: records how the line-oriented SSH banner answers to its prefixes."""
        name = 'cryptoparser.ssh.subprotocol:SshProtocolMessage'
        cls = self.classes.get(name)
        outcomes = {}
        for record in self.records_of(name)[:5]:
            for length in range(len(record)):
                try:
                    cls.parse_immutable(record[:length])
                    outcome = 'accepted'
                except Exception as e:  # pylint: disable=broad-except
                    outcome = type(e).__name__
                outcomes[outcome] = outcomes.get(outcome, 0) + 1
        self.notes['banner_prefix_outcomes'] = outcomes
        self.observe(('banner', ), True, {'kind': 'banner-observation', 'outcomes': outcomes})
        del case
        return []

    def floors(self):
        return {'prefixes_judged': 20000, 'streams': 60, 'chunks_delivered': 2000, 'fragmented_handshake_streams': 8}

    def finish(self):
        return {'records_per_class': {name.split(':')[1]: len(records) for name, records in self.records.items()}
                if self.shard == 0 else {},
                'banner_prefix_outcomes_observation_only': self.notes.get('banner_prefix_outcomes', {})}
