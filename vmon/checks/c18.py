# -*- coding: utf-8 -*-
"""C18 - insignificant spelling of text fields never changes what is parsed.

Spelling-invariance monitor: for every semantic value of each supported header / TXT type the canonical
spelling (compose) and RFC-grammar variants of it (vmon/gen/spelling.py) are parsed by the real library and
must give structurally equal objects; header blocks are compared with an independent CRLF/colon splitter.
"""
import json
import random

from vmon import core, inventory, pipeline, structural
from vmon.gen import spelling

VALUES = {'quick': 30, 'thorough': 60}
VARIANTS = {'quick': 120, 'thorough': 600}
SYNTH_BLOCKS = {'quick': 40, 'thorough': 400}
# values a modelled field cannot interpret: the field is then kept as an unparsed one (its spelled name becomes data)
UNINTERPRETABLE = {'Age': 'abc', 'Strict-Transport-Security': 'max-age=one year', 'Date': 'yesterday', 'Content-Type': 'nonsense',
                   'X-Frame-Options': 'MAYBE', 'Expires': '0', 'Pragma': 'cache', 'Referrer-Policy': 'whatever',
                   'X-Content-Type-Options': 'sniff', 'Set-Cookie': 'novalue'}


def split_header_block(block):
    """Independent reference: field lines up to the empty line, name = text before the first colon."""
    fields = []
    for line in block.split(b'\r\n'):
        if not line:
            break
        name, _, value = line.partition(b':')
        fields.append((name.decode('ascii'), value.strip(b' \t').decode('ascii')))
    return fields


class Check(core.CheckBase):
    ID = 'C18'
    TECHNIQUE = 'runtime spelling-invariance monitor: parse(variant) vs parse(canonical) on RFC-grammar variants; header blocks vs an independent splitter'
    RULE = ('one case = one semantic value (object parsed from the seed corpus) of one supported type together with its '
            'generated spellings (directive-name case, OWS around separators, empty elements, order of independent '
            'directives, quoted vs token values, additional unknown directives; SPF: name case, space runs, trailing '
            'space; NEL: JSON whitespace, member order, unknown members; header blocks: field-name case, OWS after the '
            'colon and before CRLF, known fields renamed to unknown ones); distinct = (type, spelling); non-trivial = the '
            'spelling differs from the canonical one')
    SHARDS = {'quick': 8, 'thorough': 16}
    ASSUMPTIONS = ('which variations are insignificant is taken from RFC 6797/9163/7469/9111/9110/6265/7489/8461/8460/7208 and '
                   'CSP3 as cited per type in vmon/gen/spelling.py; X-XSS-Protection has no governing RFC (OWS only)',
                   'MTA-STS and TLSRPT store unknown fields: only the recognised fields are compared there')

    def setup(self):
        self.allowed = pipeline.parse_errors()
        self.corpus = pipeline.corpus_by_class()
        self.classes = inventory.parsable_classes(concrete_only=False)
        self.originals = {}

    def values_of(self, name):
        """Distinct canonical spellings of the corpus values of a type."""
        cls = self.classes.get(name)
        canon = []
        for data in list(self.corpus.get(name, [])) + [text.encode('ascii') for text in spelling.EXTRA_VALUES.get(name, ())]:
            try:
                obj, consumed = cls.parse_immutable(data)
                composed = bytes(obj.compose())
                if consumed == len(data) and composed not in canon:
                    canon.append(composed)
                    self.originals[(name, composed)] = data
            except Exception:  # pylint: disable=broad-except
                continue
        return canon

    def cases(self):
        index = 0
        for name in sorted(spelling.TYPES):
            if name not in self.classes:
                continue
            for number in range(min(VALUES[self.tier], len(self.values_of(name)))):
                index += 1
                if self.mine(index):
                    yield {'kind': 'value', 'cls': name, 'number': number}
        name = 'cryptoparser.httpx.header:HttpHeaderFieldValueNetworkErrorLogging'
        for number in range(min(VALUES[self.tier], len(self.values_of(name)))):
            index += 1
            if self.mine(index):
                yield {'kind': 'nel', 'cls': name, 'number': number}
        index += 1
        if self.mine(index):
            yield {'kind': 'extras'}
        name = 'cryptoparser.httpx.header:HttpHeaderFields'
        for number in range(len(self.corpus.get(name, [])) + SYNTH_BLOCKS[self.tier]):
            index += 1
            if self.mine(index):
                yield {'kind': 'block', 'cls': name, 'number': number}

    def field_pool(self):
        """Canonical field lines: the fields of the corpus blocks plus, per modelled field, the corpus values of its value type."""
        if not hasattr(self, '_field_pool'):
            import cryptoparser.httpx.header as header  # pylint: disable=import-outside-toplevel
            from cryptoparser.common.utils import get_leaf_classes  # pylint: disable=import-outside-toplevel
            pool = {}
            for block in self.corpus.get('cryptoparser.httpx.header:HttpHeaderFields', []):
                for field_name, value in split_header_block(block):
                    if value not in pool.setdefault(field_name, []):
                        pool[field_name].append(value)
            for field_cls in get_leaf_classes(header.HttpHeaderFieldParsedBase):
                value_cls = field_cls._get_value_class()  # pylint: disable=protected-access
                field_name = field_cls.get_header_field_name().value.normalized_name
                for value in self.values_of('%s:%s' % (value_cls.__module__, value_cls.__qualname__))[:12]:
                    try:
                        text = value.decode('ascii')
                    except UnicodeDecodeError:
                        continue
                    if text and text == text.strip(' \t') and '\r' not in text and '\n' not in text and \
                            text not in pool.setdefault(field_name, []):
                        pool[field_name].append(text)
            self._field_pool = pool
        return self._field_pool

    def block_of(self, case):
        """(block bytes, names whose spelling is data there). Numbers past the corpus are synthesised from the pool."""
        blocks = self.corpus.get(case['cls'], [])
        if case['number'] < len(blocks):
            return blocks[case['number']], set()
        pool = self.field_pool()
        rng = random.Random('C18/synth/%d' % case['number'])
        names = rng.sample(sorted(pool), rng.randint(1, len(pool)))
        lines, verbatim = [], set()
        for field_name in names:
            if field_name in UNINTERPRETABLE and rng.random() < 0.15:
                lines.append((field_name, UNINTERPRETABLE[field_name]))
                verbatim.add(field_name.lower())
            else:
                lines.append((field_name, rng.choice(pool[field_name])))
            if rng.random() < 0.15:
                lines.append(('X-Verif-Token-%d' % rng.randrange(4), rng.choice(['1', 'token', 'a b c', 'x=1; y=2'])))
        self.stats['synthesised_blocks'] += 1
        return b''.join(('%s: %s\r\n' % line).encode('ascii') for line in lines) + b'\r\n', verbatim

    def judge(self, case):
        return getattr(self, 'judge_' + case['kind'])(case)

    def comparable(self, name, obj):
        state = structural.deep_state(obj)
        if spelling.TYPES.get(name, {}).get('compare') == 'recognised' and state[0] == 'obj':
            state = (state[0], state[1], tuple(field for field in state[2] if field[0] != 'extensions'))
        return state

    def parse_state(self, name, cls, text):
        try:
            obj = cls.parse_exact_size(text)
        except self.allowed as e:
            return ('rejected', type(e).__name__)
        except Exception as e:  # pylint: disable=broad-except
            return ('leak', type(e).__name__)
        return ('ok', self.comparable(name, obj))

    def judge_value(self, case):  # pylint: disable=too-many-locals
        name = case['cls']
        cls = self.classes[name]
        short = name.split(':')[1]
        values = self.values_of(name)
        if case['number'] >= len(values):
            return []
        canon = values[case['number']]
        found = []
        reference = self.parse_state(name, cls, canon)
        self.stats['canonical_spellings'] += 1
        if reference[0] != 'ok':
            found.append(self.violation('canonical-rejected|%s' % short,
                                        'the canonical spelling %r produced by compose is not accepted (%s)' % (canon[:80], reference[1]),
                                        case))
            return found
        # the canonical spelling is itself one of the variants: it must parse to what the accepted spelling it was made from parses to
        original = self.originals.get((name, canon))
        if original is not None and original != canon:
            self.stats['canonical_vs_original'] += 1
            if self.parse_state(name, cls, original) != reference:
                found.append(self.violation('canonical-differs|%s' % short,
                                            '%s: the canonical spelling %r parses differently from %r which it was composed from' % (
                                                short, canon[:100], original[:100]), case))
        rng = random.Random('C18/%s/%s/%s' % (self.seed, name, case['number']))
        if 'text' in case:
            stream = [(tuple(case['used']), case['text'])]
        else:
            stream = spelling.variants(name, canon.decode('ascii'), rng, VARIANTS[self.tier])
        failing = {}
        for used, text in stream:
            self.observe((name, text), True, {'cls': short, 'canonical': canon[:80].decode('ascii', 'replace'),
                                              'variant': text[:120], 'classes': list(used)})
            self.stats['variants_parsed'] += 1
            for variant_class in used:
                self.stats['class_' + variant_class] += 1
            got = self.parse_state(name, cls, text.encode('ascii'))
            if got != reference:
                failing.setdefault(used, (text, got))
        # attribute each failing combination to single variant classes where a single class reproduces it
        reported = set()
        for used, (text, got) in failing.items():
            culprits = []
            if len(used) > 1:
                # minimal failing subsets of the variant classes (sizes 1, 2, ...): the key names the mechanism,
                # not the accidental combination this seed happened to draw
                import itertools  # pylint: disable=import-outside-toplevel
                for size in range(1, len(used)):
                    for subset in itertools.combinations(used, size):
                        if any(set(found_used) <= set(subset) for found_used, _ in culprits):
                            continue
                        single_rng = random.Random('C18/attr/%s/%s/%s' % (name, case['number'], '+'.join(subset)))
                        for single_used, single_text in spelling.variants(name, canon.decode('ascii'), single_rng, 40, only=subset):
                            if set(single_used) != set(subset):
                                continue
                            if self.parse_state(name, cls, single_text.encode('ascii')) != reference:
                                culprits.append((single_used, single_text))
                                break
                    if culprits:
                        break
            if not culprits:
                culprits = [(used, text)]
            for culprit_used, culprit_text in culprits:
                key = 'variant-differs|%s|%s' % (short, '+'.join(culprit_used))
                if key in reported:
                    continue
                reported.add(key)
                outcome = self.parse_state(name, cls, culprit_text.encode('ascii'))
                found.append(self.violation(
                    key, '%s: %r parses %s than the canonical %r' % (
                        short, culprit_text[:120], 'differently' if outcome[0] == 'ok' else 'as %s(%s) rather' % outcome[:2],
                        canon[:100].decode('ascii', 'replace')),
                    dict(case, text=culprit_text, used=list(culprit_used))))
        return found

    def judge_extras(self, case):
        """The hand-written further values (vmon/gen/spelling.py EXTRA_VALUES) are valid by the grammar of their RFC and were
        accepted when they were written down: every one of them is still accepted, and composes."""
        found = []
        for name in sorted(spelling.EXTRA_VALUES):
            cls = self.classes.get(name)
            if cls is None:
                continue
            for text in spelling.EXTRA_VALUES[name]:
                self.stats['extra_values_parsed'] += 1
                self.observe(('extra', name, text), True, {'cls': name.split(':')[1], 'value': text})
                try:
                    obj = cls.parse_exact_size(text.encode('ascii'))
                    obj.compose()
                except Exception as e:  # pylint: disable=broad-except
                    found.append(self.violation('valid-value-rejected|%s' % name.split(':')[1],
                                                '%s: the valid value %r is refused: %r' % (name.split(':')[1], text, e),
                                                dict(case, cls=name, text=text)))
                    break
        return found

    def judge_nel(self, case):
        name = case['cls']
        cls = self.classes[name]
        values = self.values_of(name)
        if case['number'] >= len(values):
            return []
        canon = values[case['number']]
        reference = self.parse_state(name, cls, canon)
        found = []
        if reference[0] != 'ok':
            return [self.violation('canonical-rejected|HttpHeaderFieldValueNetworkErrorLogging', 'canonical NEL value rejected', case)]
        document = json.loads(canon.decode('ascii'))
        # the members of the JSON document are the values of the parsed object (independent reading with json.loads)
        try:
            parsed = cls.parse_exact_size(canon)
            for member, wanted in document.items():
                component = getattr(parsed, member, None)
                if component is None and wanted is not None and hasattr(parsed, member):
                    found.append(self.violation('nel-member-lost|%s' % member, 'NEL member %s=%r of %r is absent from the parsed value' % (
                        member, wanted, canon[:100]), case))
                    continue
                value = getattr(component, 'value', component)
                if hasattr(value, 'total_seconds'):
                    value = value.total_seconds()
                if isinstance(wanted, (bool, int, float)) and hasattr(parsed, member) and value != wanted:
                    found.append(self.violation('nel-member-differs|%s' % member, 'NEL member %s=%r of %r is parsed as %r' % (
                        member, wanted, canon[:100], value), case))
            self.stats['nel_members_compared'] += len(document)
        except Exception:  # pylint: disable=broad-except
            pass
        rng = random.Random('C18/nel/%s/%s' % (self.seed, case['number']))
        for _ in range(VARIANTS[self.tier]):
            items = list(document.items())
            used = []
            if rng.random() < 0.5:
                rng.shuffle(items)
                used.append('member-order')
            if rng.random() < 0.4:
                items.insert(rng.randrange(len(items) + 1), ('x_unknown', rng.choice([1, 'a', None, [1, 2], {'k': 1}])))
                used.append('unknown-member')
            separators = (rng.choice([',', ', ', ' , ', ',\n']), rng.choice([':', ': ', ' : ']))
            text = json.dumps(dict(items), separators=separators)
            if rng.random() < 0.35 and isinstance(document.get('max_age'), int) and not isinstance(document.get('max_age'), bool):
                # RFC 8259 6: the same number written with a fraction part of zero or with an exponent
                number = document['max_age']
                plain = '"max_age"%s%d' % (separators[1], number)
                if text.count(plain) == 1 and not text[text.index(plain) + len(plain):][:1].isdigit():
                    spelled = rng.choice(['%d.0' % number, '%d.000' % number, '%dE0' % number, '%de+0' % number] + (
                        ['%de1' % (number // 10), '%d.0e+1' % (number // 10)] if number and number % 10 == 0 else []))
                    text = text.replace(plain, '"max_age"%s%s' % (separators[1], spelled))
                    used.append('number-spelling')
            if rng.random() < 0.3:
                text = ' ' + text + ' '
            used.append('whitespace')
            self.observe((name, text), True, {'cls': 'NEL', 'variant': text[:120], 'classes': used})
            self.stats['variants_parsed'] += 1
            got = self.parse_state(name, cls, text.encode('ascii'))
            if got != reference:
                key = 'variant-differs|HttpHeaderFieldValueNetworkErrorLogging|%s' % '+'.join(sorted(set(used)))
                found.append(self.violation(key, 'NEL value %r parses differently from %r' % (text[:120], canon[:100]), case))
        dedup = {}
        for violation in found:
            dedup.setdefault(violation.key, violation)
        return list(dedup.values())

    def judge_block(self, case):  # pylint: disable=too-many-locals
        name = case['cls']
        cls = self.classes[name]
        block, verbatim = self.block_of(case)
        found = []
        try:
            reference_obj = cls.parse_exact_size(block)
        except Exception as e:  # pylint: disable=broad-except
            # every line is a canonical spelling the field's own parser produced (or an unknown / uninterpretable field)
            return [self.violation('block-rejected|canonical%s' % ('+uninterpretable-value' if verbatim else ''),
                                   'a block of canonical field lines is rejected: %r' % e, dict(case, block=block.hex()))]
        expected = split_header_block(block)
        self.stats['header_blocks'] += 1

        def names_of(obj):
            result = []
            for field in obj:
                if hasattr(field, 'name'):
                    result.append(field.name.lower())
                else:
                    result.append(field.get_header_field_name().value.code.lower())
            return result
        self.observe((name, block), True, {'cls': 'HttpHeaderFields', 'fields': [n for n, _ in expected][:8]})
        if names_of(reference_obj) != [n.lower() for n, _ in expected]:
            found.append(self.violation('block-fields|canonical', 'the parsed block lists %r, the block holds %r' % (
                names_of(reference_obj)[:6], [n for n, _ in expected][:6]), case))
            return found
        rng = random.Random('C18/block/%s/%s' % (self.seed, case['number']))
        reference_state = structural.deep_state(reference_obj)
        # names of fields the library does not model are data (kept verbatim in the unparsed field): not respelled
        import cryptoparser.httpx.header as header  # pylint: disable=import-outside-toplevel
        known_names = set(member.value.code.lower() for member in header.HttpHeaderFieldName)
        failing = {}
        for round_number in range(VARIANTS[self.tier] // 2):
            lines = []
            used = set()
            # the first rounds use exactly one variant class (attribution), later rounds combine them
            only = ('field-name-case', 'ows-after-colon', 'ows-before-crlf')[round_number % 3] if round_number < 18 else None
            for field_name, value in expected:
                spelled = field_name
                if only in (None, 'field-name-case') and rng.random() < 0.5 and field_name.lower() in known_names and \
                        field_name.lower() not in verbatim:
                    spelled = spelling._recase(field_name, rng)  # pylint: disable=protected-access
                    if spelled != field_name:
                        used.add('field-name-case')
                gap = rng.choice([' ', ' ', '', '  ', '\t', ' \t']) if only in (None, 'ows-after-colon') else ' '
                if gap != ' ':
                    used.add('ows-after-colon')
                trail = rng.choice(['', '', ' ', '  ', '\t']) if only in (None, 'ows-before-crlf') else ''
                if trail:
                    used.add('ows-before-crlf')
                lines.append(spelled.encode('ascii') + b':' + gap.encode('ascii') + value.encode('ascii') + trail.encode('ascii'))
            variant = b'\r\n'.join(lines) + b'\r\n\r\n'
            if not used or variant == block:
                continue
            self.stats['variants_parsed'] += 1
            self.observe((name, variant), True)
            key_used = tuple(sorted(used))
            try:
                got = cls.parse_exact_size(variant)
            except Exception as e:  # pylint: disable=broad-except
                failing.setdefault(key_used, ('rejected', 'is rejected: %r' % e, variant))
                continue
            if structural.deep_state(got) != reference_state:
                failing.setdefault(key_used, ('differs', 'parses differently (%s)' % structural.diff_path(
                    reference_state, structural.deep_state(got)), variant))
        singles = set(key_used[0] for key_used in failing if len(key_used) == 1)
        for key_used, (kind, what, variant) in failing.items():
            if len(key_used) > 1 and any(cls_name in singles for cls_name in key_used):
                continue    # explained by a single variant class already reported
            found.append(self.violation('block-variant-%s|%s' % (kind, '+'.join(key_used)),
                                        'a header block respelled with %s %s' % (list(key_used), what),
                                        dict(case, variant=variant.hex())))
        # whether or not each field type is one the library understands: rename every field to an unknown name
        renamed = b'\r\n'.join(('X-Verif-%s: %s' % (field_name, value)).encode('ascii') for field_name, value in expected) + b'\r\n\r\n'
        self.stats['renamed_blocks'] += 1
        try:
            got = cls.parse_exact_size(renamed)
            got_names = names_of(got)
            if got_names != [('x-verif-' + n).lower() for n, _ in expected]:
                found.append(self.violation('block-fields|renamed-to-unknown',
                                            'with every field renamed to an unknown name the block lists %d fields instead of %d' % (
                                                len(got_names), len(expected)), case))
        except Exception as e:  # pylint: disable=broad-except
            found.append(self.violation('block-fields|renamed-rejected', 'the block with unknown field names is rejected: %r' % e, case))
        dedup = {}
        for violation in found:
            dedup.setdefault(violation.key, violation)
        return list(dedup.values())

    def floors(self):
        return {'variants_parsed': 1500, 'canonical_spellings': 25, 'header_blocks': 10, 'synthesised_blocks': 8}
