# -*- coding: utf-8 -*-
"""C01 - compose -> parse returns the same message and consumes every byte.

Round-trip monitor on objects: (a) every object obtained by parsing a valid encoding of the seed corpus,
(b) every library object nested in it, judged on its own class, (c) every object obtained by parsing an *accepted mutant* of a valid encoding
("objects obtained by parsing arbitrary accepted inputs"), (d) constructive generators sharing abstract values with the
reference codecs (vmon/gen).
"""
import random

from vmon import core, inventory, mutate, objgen, pipeline, roundtrip

MUTANTS = {'quick': 80, 'thorough': 8000}


class Check(core.CheckBase):
    ID = 'C01'
    TECHNIQUE = 'runtime round-trip monitor (compose -> same-type parse -> consumed == len and structural equality)'
    RULE = ('objects: parsed from every valid encoding of the seed corpus, every nested library object on its own '
            'class, objects parsed from accepted mutants of those encodings, and generator-built objects '
            '(vmon/gen, abstract values shared with the reference codecs); distinct = SHA-1 of (class, composed bytes); non-trivial = compose() '
            'succeeded so the parser was actually run on the bytes')
    SHARDS = {'quick': 8, 'thorough': 16}
    ASSUMPTIONS = ('generators draw from the wire-representable declared domain (DESIGN §2.2); generic field perturbation '
                   'through attr.evolve was tried and dropped: without per-class knowledge of cross-field constraints it '
                   'cannot tell a defect from an inconsistent object (DESIGN §7)',
                   'structural equality as in vmon/structural.py')

    def setup(self):
        self.allowed = pipeline.parse_errors()
        self.corpus = pipeline.corpus_by_class()
        self.classes = inventory.parsable_classes(concrete_only=False)
        self.all_seeds = [data for seeds in self.corpus.values() for data in seeds]
        self.generators = {}
        try:
            from vmon.gen import constructive  # pylint: disable=import-outside-toplevel
            self.generators = constructive.generators()
        except ImportError:
            pass

    def cases(self):
        index = 0
        for name in sorted(self.corpus):
            if name not in self.classes:
                continue
            for seed_index in range(len(self.corpus[name])):
                index += 1
                if self.mine(index):
                    yield {'kind': 'seed', 'cls': name, 'seed_index': seed_index}
        for name in sorted(self.generators):
            blocks = 4 if self.tier == 'quick' else 60
            for block in range(blocks):
                index += 1
                if self.mine(index):
                    yield {'kind': 'generated', 'gen': name, 'block': block}

    def judge(self, case):
        found = []
        if case['kind'] == 'generated':
            rng = random.Random('C01/gen/%s/%s/%s' % (self.seed, case['gen'], case['block']))
            for label, obj in self.generators[case['gen']](rng, 60):
                found.extend(self.judge_object(obj, 'generated', dict(case, label=label), strict=True))
            return found
        name = case['cls']
        cls = self.classes.get(name) or inventory.resolve(name)
        data = self.corpus[name][case['seed_index']] if 'hex' not in case else bytes.fromhex(case['hex'])
        try:
            obj, _ = cls.parse_immutable(data)
        except Exception as e:  # pylint: disable=broad-except
            self.stats['seed_no_longer_accepted'] += 1
            if 'mutant_hex' in case or 'hex' in case:
                return []
            # the committed corpus holds valid encodings only (what the repository's own tests compose and parse, accepted on
            # the pinned tree): one that is refused now is a valid message the parser of its own type no longer accepts
            return [self.violation('recorded-encoding-rejected|%s|%s' % (name.split(':')[1], type(e).__name__),
                                   '%s refuses the valid encoding %s.. of the seed corpus: %r' % (name.split(':')[1], data[:32].hex(), e),
                                   {'kind': 'seed', 'cls': name, 'seed_index': case['seed_index'], 'only': 'parsed'})]
        rng = random.Random('C01/%s/%s/%s' % (self.seed, name, case['seed_index']))
        replay = {'kind': 'seed', 'cls': name, 'seed_index': case['seed_index'], 'hex': data.hex()}
        if case.get('only') in (None, 'parsed'):
            found.extend(self.judge_object(obj, 'parsed', dict(replay, only='parsed'), strict=True, cls=cls))
        nested = objgen.sub_objects(obj)
        if case.get('only') in (None, 'nested'):
            for child in nested:
                found.extend(self.judge_object(child, 'nested', dict(replay, only='nested'), strict=True))
        if case.get('only') in (None, 'mutant'):
            if 'mutant_hex' in case:
                stream = [(('replay', ), bytes.fromhex(case['mutant_hex']))]
            else:
                others = self.corpus[name] + [rng.choice(self.all_seeds) for _ in range(3)]
                stream = mutate.mutants(data, others, rng, max(12, MUTANTS[self.tier] // max(1, len(self.corpus[name]))))
            for recipe, mutant in stream:
                try:
                    mutant_obj, consumed = cls.parse_immutable(mutant)
                except Exception:  # pylint: disable=broad-except
                    self.stats['mutants_rejected'] += 1
                    continue
                if mutant[:consumed] == data:
                    continue
                found.extend(self.judge_object(
                    mutant_obj, 'parsed-mutant:' + str(recipe[0]),
                    dict(replay, only='mutant', mutant_hex=mutant.hex()), strict=True, cls=cls))
        return found

    def judge_object(self, obj, origin, case, strict, cls=None):
        import enum  # pylint: disable=import-outside-toplevel
        cls = cls or type(obj)
        if isinstance(obj, enum.Enum) and not hasattr(obj, 'compose'):
            return []
        if not hasattr(cls, 'parse_immutable'):
            return []
        self.stats['objects_' + origin.split(':')[0]] += 1
        results, composed = roundtrip.compose_then_parse(cls, obj)
        name = inventory.class_name(cls)
        self.observe((name, composed) if composed is not None else (name, id(obj)), composed is not None,
                     {'cls': name, 'origin': origin, 'composed_hex': (composed or b'')[:48].hex(),
                      'len': len(composed or b'')})
        self.notes.setdefault('classes', set()).add(name)
        return [self.violation(key, '[%s] %s' % (origin, what), case) for key, what in results]

    def floors(self):
        return {'objects_parsed': 500, 'objects_nested': 500, 'objects_parsed-mutant': 1500, 'classes': 280}

    def finish(self):
        return {'classes': sorted(self.notes.get('classes', set())), 'generators': sorted(self.generators)}
