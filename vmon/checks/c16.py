# -*- coding: utf-8 -*-
"""C16 - HASSH and SSH host-key fingerprints equal their definitions over wire bytes.

Differential monitor: KEXINIT messages, host keys and certificates are encoded by the independent
reference encoder (vmon/ref/ssh.py), parsed by the real library, and hassh / hassh_server /
fingerprints / known_hosts of the parsed objects are compared with hashlib over the reference bytes.
"""
import random

from vmon import core
from vmon.ref import ssh as ref

HASH_NAMES = {'SHA2_256': 'SHA256', 'SHA1': 'SHA1', 'MD5': 'MD5'}


class Check(core.CheckBase):
    ID = 'C16'
    TECHNIQUE = 'runtime differential monitor: hassh/fingerprints of parsed objects vs. hashlib over reference-encoded wire bytes'
    RULE = ('one case = one generated KEXINIT (ordered lists of 0-8 known and unknown names per list, empty lists included) or '
            'one host key / OpenSSH certificate (RSA, DSS, ECDSA P-256/384/521, Ed25519; integers at boundary bit lengths) '
            'encoded by the reference encoder and parsed by the library; distinct = SHA-1 of the wire bytes; non-trivial = '
            'the library accepted the bytes so that the fingerprint functions ran')
    SHARDS = {'quick': 8, 'thorough': 16}
    BLOCKS = {'quick': 120, 'thorough': 9600}
    PER_BLOCK = 30
    ASSUMPTIONS = ('HASSH = md5 of kex;encryption;mac;compression name-lists (client: client-to-server lists, server: '
                   'server-to-client lists) exactly as on the wire', 'fingerprints are digests of the RFC 4253 public key blob')

    def setup(self):
        from vmon.gen import ssh  # pylint: disable=import-outside-toplevel
        import cryptoparser.ssh.key as key  # pylint: disable=import-outside-toplevel
        import cryptoparser.ssh.subprotocol as sub  # pylint: disable=import-outside-toplevel
        self.gen = ssh
        self.key = key
        self.sub = sub

    def cases(self):
        for block in range(self.BLOCKS[self.tier]):
            if self.mine(block):
                yield {'kind': 'block', 'rng': 'C16/%s/%d' % (self.seed, block)}

    def judge(self, case):
        rng = random.Random(case['rng'])
        found = []
        wanted = case.get('index')
        for index in range(self.PER_BLOCK):
            kind = index % 5
            try:
                if kind == 4:
                    pairs = [self.gen.certificate_plain_options(rng)]
                elif kind == 3:
                    # the same subject key certified twice: each certificate has its own blob, hence its own fingerprints
                    pairs = self.gen.certificate_renewed(rng)
                else:
                    pairs = [self.gen.kexinit(rng) if kind == 0 else self.gen.host_key_pair(rng) if kind == 1 else self.gen.certificate(rng)]
            except Exception as e:  # pylint: disable=broad-except
                # a public constructor refuses values the specifications allow: nothing to fingerprint
                if wanted is None or index == wanted:
                    found.append(self.violation('construct-raises|%s|%s' % (('kexinit', 'host-key', 'certificate', 'certificate', 'certificate')[kind],
                                                                            type(e).__name__),
                                                'building a specification-conformant message or key raised %r' % e, dict(case, index=index)))
                continue
            if wanted is not None and index != wanted:
                continue
            single = dict(case, index=index)
            for pair in pairs:
                if kind == 0:
                    found.extend(self.judge_kexinit(pair, single))
                else:
                    found.extend(self.judge_key(pair, single))
        dedup = {}
        for violation in found:
            dedup.setdefault(violation.key, violation)
        return list(dedup.values())

    def judge_kexinit(self, pair, case):
        found = []
        self.stats['kexinits'] += 1
        try:
            parsed = self.sub.SshKeyExchangeInit.parse_exact_size(pair.wire)
        except Exception:  # pylint: disable=broad-except
            self.stats['rejected'] += 1
            self.evaluations += 1
            return found
        self.observe(pair.wire, True, {'kind': 'kexinit', 'wire': pair.wire[:48].hex(), 'hassh': pair.extra['hassh']})
        for attribute in ('hassh', 'hassh_server'):
            self.stats['hassh_compared'] += 1
            try:
                got = getattr(parsed, attribute)
                if callable(got):
                    got = got()
            except Exception as e:  # pylint: disable=broad-except
                found.append(self.violation('%s-raises|%s' % (attribute, type(e).__name__), repr(e), case))
                continue
            if got != pair.extra[attribute]:
                found.append(self.violation('%s-mismatch' % attribute, '%s = %s, md5 over the wire name-lists = %s' % (
                    attribute, got, pair.extra[attribute]), case))
        for via in (self.sub.SshMessageVariantInit, ):
            try:
                through = via.parse_exact_size(pair.wire)
                if through.hassh != pair.extra['hassh']:
                    found.append(self.violation('hassh-mismatch|via-variant', 'hassh differs when parsed through the message variant', case))
            except Exception:  # pylint: disable=broad-except
                pass
        return found

    def judge_key(self, pair, case):
        found = []
        blob = pair.extra['blob']
        self.stats['keys'] += 1
        parsed = None
        for parser in (pair.cls, self.key.SshHostPublicKeyVariant):
            try:
                parsed = parser.parse_exact_size(blob)
            except Exception:  # pylint: disable=broad-except
                self.stats['rejected'] += 1
                continue
            expected = ref.fingerprints(blob)
            self.stats['fingerprints_compared'] += 1
            try:
                got = {HASH_NAMES.get(hash_type.name, hash_type.name): value for hash_type, value in parsed.fingerprints.items()}
            except Exception as e:  # pylint: disable=broad-except
                found.append(self.violation('fingerprints-raises|%s' % type(e).__name__, repr(e), case))
                continue
            for name, value in expected.items():
                if got.get(name) != value:
                    found.append(self.violation('fingerprint-mismatch|%s|%s' % (name, pair.label.split('-v0')[0]),
                                                '%s fingerprint of a %s is %r, the digest of the RFC 4253 blob is %r' % (
                                                    name, pair.label, got.get(name), value), case))
            if set(got) != set(expected):
                found.append(self.violation('fingerprint-set|%s' % pair.label.split('-v0')[0], 'fingerprints offered: %r' % sorted(got), case))
            try:
                described = parsed.host_key_asdict() if pair.extra['kind'] == 'key' else parsed._asdict()  # pylint: disable=protected-access
                if described.get('known_hosts') != ref.known_hosts(blob):
                    found.append(self.violation('known-hosts-mismatch|%s' % pair.label.split('-v0')[0],
                                                'known_hosts value is not the base64 of the public key blob', case))
                self.stats['known_hosts_compared'] += 1
            except Exception as e:  # pylint: disable=broad-except
                found.append(self.violation('known-hosts-raises|%s' % type(e).__name__, repr(e), case))
        if parsed is not None:
            self.observe(blob, True, {'kind': pair.label, 'blob': blob[:48].hex(), 'sha256': ref.fingerprints(blob)['SHA256']})
        else:
            self.evaluations += 1
        return found

    def floors(self):
        return {'hassh_compared': 600, 'fingerprints_compared': 800, 'known_hosts_compared': 800}
