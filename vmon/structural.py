# -*- coding: utf-8 -*-
"""deep_state(): immutable structural picture of a library object; structural equality.

Objects whose class is defined under cryptoparser.* are opened (attrs fields including
init=False ones and private ones, plus every other instance attribute); everything else
(datetime, asn1crypto, cryptodatahub keys, urllib3 URLs, ipaddress) is a leaf compared
through a public projection, never through private caches (DESIGN §4 hazard 13).
"""
import collections
import datetime
import enum
import re

import attr

UTC = datetime.timezone.utc


class _Cyclic(Exception):
    pass


def _is_lib(obj):
    return type(obj).__module__.split('.')[0] == 'cryptoparser'


def _leaf(obj, strict_types=False):
    if isinstance(obj, datetime.datetime):
        if obj.tzinfo is None:
            if strict_types:
                return ('datetime-naive', obj.isoformat())
            # the library's convention is naive == UTC (timestamps, HTTP dates are composed as GMT)
            return ('datetime', obj.replace(tzinfo=UTC).isoformat())
        try:
            return ('datetime-aware' if strict_types else 'datetime', obj.astimezone(UTC).isoformat())
        except (ValueError, OverflowError):     # unusable offset / instant: compare what can be compared
            return ('datetime-unconvertible', repr(obj.replace(tzinfo=None)), repr(obj.tzinfo))
    if isinstance(obj, datetime.timedelta):
        return ('timedelta', obj.total_seconds())
    for projection in ('der', ):
        value = getattr(obj, projection, None)
        if isinstance(value, (bytes, bytearray)):
            return ('leaf', type(obj).__qualname__, bytes(value))
    dump = getattr(obj, 'dump', None)
    if callable(dump):
        try:
            return ('leaf', type(obj).__qualname__, bytes(dump()))
        except Exception:  # pylint: disable=broad-except
            pass
    try:
        hash(obj)
        return ('leaf', type(obj).__qualname__, obj)
    except TypeError:
        return ('leaf', type(obj).__qualname__, repr(obj))


def deep_state(obj, strict_types=False, _stack=None):
    """strict_types=True keeps bytes/bytearray and list/tuple apart (purity monitor);
    False folds them (round-trip equality: constructors take either)."""
    if obj is None or isinstance(obj, bool):
        return obj
    if isinstance(obj, enum.Enum):
        return ('enum', type(obj).__qualname__, obj.name)
    if isinstance(obj, (int, float, str)):
        return obj
    if isinstance(obj, (bytes, bytearray)):
        return (type(obj).__name__ if strict_types else 'bytes', bytes(obj))
    if _stack is None:
        _stack = set()
    if id(obj) in _stack:
        return ('cycle', type(obj).__qualname__)
    _stack.add(id(obj))
    try:
        if isinstance(obj, (list, tuple)):
            return (type(obj).__name__ if strict_types else 'seq',
                    tuple(deep_state(item, strict_types, _stack) for item in obj))
        if isinstance(obj, (set, frozenset)):
            items = [deep_state(item, strict_types, _stack) for item in obj]
            try:
                return ('set', frozenset(items))
            except TypeError:
                return ('set', tuple(sorted(items, key=repr)))
        if isinstance(obj, collections.OrderedDict):
            return ('odict', tuple(
                (deep_state(k, strict_types, _stack), deep_state(v, strict_types, _stack)) for k, v in obj.items()))
        if isinstance(obj, dict):
            items = [(deep_state(k, strict_types, _stack), deep_state(v, strict_types, _stack))
                     for k, v in obj.items()]
            return ('dict', tuple(sorted(items, key=repr)))
        if isinstance(getattr(obj, 'der', None), (bytes, bytearray)):
            # keys / certificates (cryptodatahub PublicKey and the library's PublicKeyX509 wrapper): the DER encoding is
            # the value; their asn1crypto members are lazily parsed caches (hazard 13)
            return ('leaf', type(obj).__qualname__, bytes(obj.der))
        if _is_lib(obj):
            fields = []
            seen = set()
            if attr.has(type(obj)):
                for field in attr.fields(type(obj)):
                    seen.add(field.name)
                    try:
                        value = getattr(obj, field.name)
                    except AttributeError:
                        value = ('<unset>', )
                    fields.append((field.name, deep_state(value, strict_types, _stack)))
            extra = getattr(obj, '__dict__', {})
            for name in sorted(extra):
                if name in seen:
                    continue
                fields.append((name, deep_state(extra[name], strict_types, _stack)))
            return ('obj', type(obj).__module__ + '.' + type(obj).__qualname__, tuple(fields))
        return _leaf(obj, strict_types)
    finally:
        _stack.discard(id(obj))


def equal(left, right):
    return deep_state(left) == deep_state(right)


def diff_locus(state_a, state_b):
    """(class name of the innermost library object that contains the first difference, path relative to
    that object with indices elided). Class name is None when the difference is above any object."""
    result = _diff(state_a, state_b, None, '')
    return result if result is not None else (None, '')


def diff_path(state_a, state_b):
    holder, path = diff_locus(state_a, state_b)
    return '%s%s' % (holder.split('.')[-1] if holder else '', path or '<root>')


def _diff(state_a, state_b, holder, path):  # pylint: disable=too-many-return-statements,too-many-branches
    if state_a == state_b:
        return None
    if (isinstance(state_a, tuple) and isinstance(state_b, tuple) and len(state_a) >= 2 and len(state_b) >= 2
            and state_a[0] == state_b[0]):
        kind = state_a[0]
        if kind == 'obj':
            if state_a[1] != state_b[1]:
                return holder, path + '<type:%s!=%s>' % (state_a[1].split('.')[-1], state_b[1].split('.')[-1])
            fields_a, fields_b = dict(state_a[2]), dict(state_b[2])
            for name in fields_a:
                if name not in fields_b:
                    return state_a[1], '.' + name + '<missing>'
                sub = _diff(fields_a[name], fields_b[name], state_a[1], '.' + name)
                if sub:
                    return sub
            for name in fields_b:
                if name not in fields_a:
                    return state_a[1], '.' + name + '<extra>'
            return holder, path
        if kind in ('seq', 'list', 'tuple') and isinstance(state_a[1], tuple) and isinstance(state_b[1], tuple):
            if len(state_a[1]) != len(state_b[1]):
                return holder, path + '[]<len>'
            for item_a, item_b in zip(state_a[1], state_b[1]):
                sub = _diff(item_a, item_b, holder, path + '[]')
                if sub:
                    return sub
            return holder, path
        if kind in ('odict', 'dict') and len(state_a[1]) == len(state_b[1]):
            for (key_a, val_a), (key_b, val_b) in zip(state_a[1], state_b[1]):
                if key_a != key_b:
                    return holder, path + '{}<key>'
                sub = _diff(val_a, val_b, holder, path + '{}')
                if sub:
                    return sub
            return holder, path
    return holder, path or '<root>'


def owner_of_field(cls, path):
    """Name of the class in cls' MRO that declares the first field of `path` (for finding keys)."""
    name = re.split(r'[.\[<{]', path.lstrip('.'))[0]
    if not name:
        return cls.__name__
    for klass in reversed(cls.__mro__):
        if attr.has(klass):
            for field in attr.fields(klass):
                if field.name == name and not getattr(field, 'inherited', False):
                    return klass.__name__
    return cls.__name__


def mutable_ids(obj, _seen=None):
    """ids of mutable objects reachable from obj (M6 identity walk)."""
    if _seen is None:
        _seen = {}
    if obj is None or isinstance(obj, (bool, int, float, str, bytes, enum.Enum)):
        return _seen
    if id(obj) in _seen:
        return _seen
    if isinstance(obj, (list, set, bytearray, dict)):
        _seen[id(obj)] = obj
    if isinstance(obj, (bytearray, )):
        return _seen
    if isinstance(obj, (list, tuple, set, frozenset)):
        for item in obj:
            mutable_ids(item, _seen)
        return _seen
    if isinstance(obj, dict):
        for key, value in obj.items():
            mutable_ids(key, _seen)
            mutable_ids(value, _seen)
        return _seen
    if _is_lib(obj):
        frozen = False
        if attr.has(type(obj)):
            frozen = getattr(type(obj), '__attrs_attrs__', None) is not None and \
                type(obj).__setattr__ is not object.__setattr__ and \
                getattr(type(obj).__setattr__, '__name__', '') == '_frozen_setattrs'
        if not frozen:
            _seen[id(obj)] = obj
        if attr.has(type(obj)):
            for field in attr.fields(type(obj)):
                mutable_ids(getattr(obj, field.name, None), _seen)
        for value in getattr(obj, '__dict__', {}).values():
            mutable_ids(value, _seen)
    return _seen
