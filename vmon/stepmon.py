# -*- coding: utf-8 -*-
"""M4: interpreter-level step / stack-depth monitor built on sys.monitoring (Python 3.12).

Counts LINE events and backward JUMP events (loop iterations that stay on one line) and tracks call depth for code objects that live under <repo>/cryptoparser only
(everything else returns DISABLE, so harness and third-party frames never enter a figure). A per-call
step budget is enforced from inside the LINE callback: exceeding it raises StepBudgetExceeded (a
BaseException, so no `except Exception` of the library can swallow it) - a non-terminating or
super-linear parse becomes an observed violation instead of a hung check.
"""
import os
import sys

from vmon import bootstrap


class StepBudgetExceeded(BaseException):
    pass


class StepMonitor(object):  # pylint: disable=too-many-instance-attributes
    TOOL_ID = 4

    def __init__(self):
        self.lib_root = os.path.join(bootstrap.REPO, 'cryptoparser') + os.sep
        self.steps = 0
        self.depth = 0
        self.max_depth = 0
        self.budget = None
        self.active = False
        self.available = hasattr(sys, 'monitoring')
        self._is_lib = {}
        self.tripped = False

    def _lib(self, code):
        flag = self._is_lib.get(code)
        if flag is None:
            flag = code.co_filename.startswith(self.lib_root)
            self._is_lib[code] = flag
        return flag

    def _on_line(self, code, line_number):  # pylint: disable=unused-argument
        if not self._lib(code):
            return sys.monitoring.DISABLE
        self.steps += 1
        if self.budget is not None and self.steps > self.budget and not self.tripped:
            self.tripped = True
            raise StepBudgetExceeded(self.steps)
        return None

    def _on_jump(self, code, offset, destination):
        # a loop written on one line (comprehension, generator expression, `for ...: stmt`, `while ...: stmt`) never changes
        # line, so LINE events do not see its iterations; the backward jump that closes each iteration does
        if not self._lib(code):
            return sys.monitoring.DISABLE
        if destination < offset:
            self.steps += 1
            if self.budget is not None and self.steps > self.budget and not self.tripped:
                self.tripped = True
                raise StepBudgetExceeded(self.steps)
        return None

    def _on_start(self, code, offset):  # pylint: disable=unused-argument
        if not self._lib(code):
            return sys.monitoring.DISABLE
        self.depth += 1
        if self.depth > self.max_depth:
            self.max_depth = self.depth
        return None

    def _on_exit(self, code, offset, value):  # pylint: disable=unused-argument
        if self._lib(code):
            self.depth -= 1

    def install(self):
        if not self.available or self.active:
            return
        mon = sys.monitoring
        try:
            mon.use_tool_id(self.TOOL_ID, 'vmon-stepmon')
        except ValueError:
            mon.free_tool_id(self.TOOL_ID)
            mon.use_tool_id(self.TOOL_ID, 'vmon-stepmon')
        events = mon.events
        mon.register_callback(self.TOOL_ID, events.LINE, self._on_line)
        mon.register_callback(self.TOOL_ID, events.JUMP, self._on_jump)
        mon.register_callback(self.TOOL_ID, events.PY_START, self._on_start)
        mon.register_callback(self.TOOL_ID, events.PY_RESUME, self._on_start)
        mon.register_callback(self.TOOL_ID, events.PY_RETURN, self._on_exit)
        mon.register_callback(self.TOOL_ID, events.PY_YIELD, self._on_exit)
        mon.register_callback(self.TOOL_ID, events.PY_UNWIND, self._on_exit)
        self.active = True

    def uninstall(self):
        if not self.active:
            return
        sys.monitoring.set_events(self.TOOL_ID, 0)
        sys.monitoring.free_tool_id(self.TOOL_ID)
        self.active = False

    def measure(self, function, *args, budget=None):
        """Run function(*args) under the monitor. Returns (outcome, steps, max_depth) where outcome is
        ('ok', result) / ('raised', exception) / ('budget', steps)."""
        mon = sys.monitoring
        events = mon.events
        self.steps = 0
        self.depth = 0
        self.max_depth = 0
        self.budget = budget
        self.tripped = False
        mon.set_events(self.TOOL_ID, events.LINE | events.JUMP | events.PY_START | events.PY_RESUME | events.PY_RETURN |
                       events.PY_YIELD | events.PY_UNWIND)
        try:
            try:
                outcome = ('ok', function(*args))
            except StepBudgetExceeded:
                outcome = ('budget', self.steps)
            except RecursionError as e:
                outcome = ('raised', e)
            except Exception as e:  # pylint: disable=broad-except
                outcome = ('raised', e)
        finally:
            mon.set_events(self.TOOL_ID, 0)
        return outcome, self.steps, self.max_depth
