# -*- coding: utf-8 -*-
"""Independent encoders for the opportunistic-TLS application messages, written from the MySQL client/server
protocol documentation (HandshakeV10, SSLRequest, packet header), RFC 1006 (TPKT), ITU-T X.224 / ISO 8073
(CR/CC TPDU), MS-RDPBCGR (RDP_NEG_REQ / RDP_NEG_RSP), the OpenVPN protocol description (P_CONTROL /
P_ACK / P_CONTROL_HARD_RESET_*_V2 and the TCP length prefix), the PostgreSQL frontend/backend protocol
(SSLRequest) and RFC 4511 / RFC 4513 (StartTLS extended operation, BER/DER). Imports nothing from cryptoparser."""


def le(value, size):  # pylint: disable=invalid-name
    return value.to_bytes(size, 'little')


def be(value, size):  # pylint: disable=invalid-name
    return value.to_bytes(size, 'big')


# ------------------------------------------------------------------------------------------ MySQL
def mysql_packet(sequence_id, payload):
    return le(len(payload), 3) + le(sequence_id, 1) + payload


def mysql_handshake_v10(protocol_version, server_version, thread_id, auth_data_1, capabilities, character_set, status,
                        auth_plugin_data_len, auth_data_2, auth_plugin_name):
    """capabilities: 32-bit integer. auth_data_2 / auth_plugin_name: None when absent."""
    assert len(auth_data_1) == 8
    data = (le(protocol_version, 1) + server_version + b'\x00' + le(thread_id, 4) + auth_data_1 + b'\x00' +
            le(capabilities & 0xffff, 2) + le(character_set, 1) + le(status, 2) + le(capabilities >> 16, 2) +
            le(auth_plugin_data_len, 1) + b'\x00' * 10)
    if auth_data_2 is not None:
        data += auth_data_2
    if auth_plugin_name is not None:
        data += auth_plugin_name + b'\x00'
    return data


def mysql_ssl_request_41(capabilities, max_packet_size, character_set):
    return le(capabilities, 4) + le(max_packet_size, 4) + le(character_set, 1) + b'\x00' * 23


def mysql_ssl_request_320(capabilities, max_packet_size):
    return le(capabilities, 2) + le(max_packet_size, 3)


# ------------------------------------------------------------------------------------------ RDP
def tpkt(payload, version=3):
    return be(version, 1) + b'\x00' + be(len(payload) + 4, 2) + payload


def x224_connection(code, dst_ref, src_ref, class_option, variable):
    """CR (0xE) / CC (0xD) TPDU: LI, code|CDT, DST-REF, SRC-REF, class option, variable part."""
    header = be(code << 4, 1) + be(dst_ref, 2) + be(src_ref, 2) + be(class_option, 1) + variable
    return be(len(header), 1) + header


def rdp_negotiation(packet_type, flags, protocols):
    return le(packet_type, 1) + le(flags, 1) + le(8, 2) + le(protocols, 4)


# ------------------------------------------------------------------------------------------ OpenVPN
def openvpn_packet(opcode, key_id, session_id, ack_ids, remote_session_id, packet_id, payload):
    data = be((opcode << 3) | key_id, 1) + be(session_id, 8) + be(len(ack_ids), 1)
    if ack_ids:
        data += b''.join(be(ack, 4) for ack in ack_ids) + be(remote_session_id, 8)
    if packet_id is not None:
        data += be(packet_id, 4)
    return data + payload


def openvpn_tcp(packet):
    return be(len(packet), 2) + packet


# ------------------------------------------------------------------------------------------ PostgreSQL
def postgresql_ssl_request():
    return be(8, 4) + be(80877103, 4)


# ------------------------------------------------------------------------------------------ LDAP (DER)
def der_length(length):
    if length < 0x80:
        return be(length, 1)
    size = (length.bit_length() + 7) // 8
    return be(0x80 | size, 1) + be(length, size)


def der(tag, content):
    return be(tag, 1) + der_length(len(content)) + content


def der_integer(value):
    size = max(1, (value.bit_length() + 8) // 8)
    return der(0x02, value.to_bytes(size, 'big', signed=True))


def ber(tag, content, length_octets=None):
    """Definite-length BER: `length_octets` forces the long form with that many length octets (X.690 8.1.3.5 allows more
    octets than necessary; Active Directory sends 30 84 00 00 00 xx). RFC 4511 5.1 keeps this freedom for LDAP."""
    if length_octets is None:
        return der(tag, content)
    length_octets = max(length_octets, (len(content).bit_length() + 7) // 8)
    return be(tag, 1) + be(0x80 | length_octets, 1) + be(len(content), length_octets) + content


def ldap_start_tls_request(message_id=1, outer_length_octets=None, inner_length_octets=None):
    operation = ber(0x77, der(0x80, b'1.3.6.1.4.1.1466.20037'), inner_length_octets)   # [APPLICATION 23], requestName [0]
    return ber(0x30, der_integer(message_id) + operation, outer_length_octets)


def ldap_start_tls_response(result_code, message_id=1, matched_dn=b'', diagnostic=b'', response_name=None,  # pylint: disable=too-many-arguments
                            outer_length_octets=None, inner_length_octets=None):
    content = der(0x0a, be(result_code, 1)) + der(0x04, matched_dn) + der(0x04, diagnostic)
    if response_name is not None:
        content += der(0x8a, response_name)                                # responseName [10]
    return ber(0x30, der_integer(message_id) + ber(0x78, content, inner_length_octets), outer_length_octets)   # [APPLICATION 24]
