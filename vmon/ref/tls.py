# -*- coding: utf-8 -*-
"""Independent SSL/TLS encoders written from the RFC text (RFC 5246, 8446, 6066, 7301, 7627, 7685, 7919,
8449, 8879, 6962, 8701, 7366, 5077, 5746, 6101 and the SSL 2.0 draft). Imports nothing from cryptoparser.

All values are plain Python: integers for code points, bytes for opaque data, lists for vectors.
"""


def u8(value):
    return value.to_bytes(1, 'big')


def u16(value):
    return value.to_bytes(2, 'big')


def u24(value):
    return value.to_bytes(3, 'big')


def u32(value):
    return value.to_bytes(4, 'big')


def u64(value):
    return value.to_bytes(8, 'big')


# <floor..ceiling> of the TLS presentation language; the prefix width follows from the ceiling
CEILINGS = {
    'session_id': 32, 'cipher_suites': 2 ** 16 - 2, 'compression_methods': 2 ** 8 - 1, 'extensions': 2 ** 16 - 1,
    'extension_data': 2 ** 16 - 1, 'server_name_list': 2 ** 16 - 1, 'host_name': 2 ** 16 - 1,
    'ec_point_format_list': 2 ** 8 - 1, 'named_group_list': 2 ** 16 - 1, 'versions': 254,
    'supported_signature_algorithms': 2 ** 16 - 2, 'client_shares': 2 ** 16 - 1, 'key_exchange': 2 ** 16 - 1,
    'responder_id_list': 2 ** 16 - 1, 'responder_id': 2 ** 16 - 1, 'request_extensions': 2 ** 16 - 1,
    'renegotiated_connection': 2 ** 8 - 1, 'protocol_name_list': 2 ** 16 - 1, 'protocol_name': 2 ** 8 - 1,
    'key_parameters': 2 ** 8 - 1, 'ke_modes': 255, 'algorithms': 2 ** 8 - 2, 'certificate_list': 2 ** 24 - 1,
    'asn1_cert': 2 ** 24 - 1, 'certificate_types': 2 ** 8 - 1, 'certificate_authorities': 2 ** 16 - 1,
    'distinguished_name': 2 ** 16 - 1, 'ocsp_response': 2 ** 24 - 1, 'fragment': 2 ** 14 + 2048,
    'sct_list': 2 ** 16 - 1, 'serialized_sct': 2 ** 16 - 1, 'ct_extensions': 2 ** 16 - 1, 'ct_signature': 2 ** 16 - 1,
    'handshake_body': 2 ** 24 - 1,
}


def width(name):
    ceiling = CEILINGS[name]
    size = 1
    while ceiling >= 2 ** (8 * size):
        size += 1
    return size


def vec(name, data):
    return len(data).to_bytes(width(name), 'big') + bytes(data)


# ---------------------------------------------------------------------------------------- record layer
def record(content_type, version, fragment):
    return u8(content_type) + u16(version) + u16(len(fragment)) + bytes(fragment)


def ssl2_record(message_type, body):
    """Two-byte header form: msb set, 15-bit length of what follows (message type + body), no padding."""
    payload = u8(message_type) + bytes(body)
    return u16(0x8000 | len(payload)) + payload


def ssl2_record_padded(message_type, body, padding):
    """Three-byte header form: 14-bit length (including padding), then the padding length."""
    payload = u8(message_type) + bytes(body) + bytes(padding)
    return u16(len(payload) & 0x3fff) + u8(len(padding)) + payload


def ssl2_error(error_code):
    return u16(error_code)


def ssl2_client_hello(version, cipher_kinds, session_id, challenge):
    specs = b''.join(u24(kind) for kind in cipher_kinds)
    return u16(version) + u16(len(specs)) + u16(len(session_id)) + u16(len(challenge)) + specs + session_id + challenge


def ssl2_server_hello(session_id_hit, certificate_type, version, certificate, cipher_kinds, connection_id):
    specs = b''.join(u24(kind) for kind in cipher_kinds)
    return (u8(1 if session_id_hit else 0) + u8(certificate_type) + u16(version) + u16(len(certificate)) +
            u16(len(specs)) + u16(len(connection_id)) + certificate + specs + connection_id)


def alert(level, description):
    return u8(level) + u8(description)


def change_cipher_spec():
    return u8(1)


# ---------------------------------------------------------------------------------------- handshake
def handshake(msg_type, body):
    return u8(msg_type) + u24(len(body)) + bytes(body)


def hello_random(gmt_unix_time, random_bytes):
    assert len(random_bytes) == 28
    return u32(gmt_unix_time) + bytes(random_bytes)


def extension(ext_type, data):
    return u16(ext_type) + vec('extension_data', data)


def extensions_block(extensions):
    """extensions: list of already encoded extensions, or None for 'no extensions field at all'."""
    if extensions is None:
        return b''
    return vec('extensions', b''.join(extensions))


def client_hello(version, random, session_id, cipher_suites, compression_methods, extensions):
    body = (u16(version) + random + vec('session_id', session_id) +
            vec('cipher_suites', b''.join(u16(suite) for suite in cipher_suites)) +
            vec('compression_methods', bytes(compression_methods)) + extensions_block(extensions))
    return handshake(1, body)


def server_hello(version, random, session_id, cipher_suite, compression_method, extensions, msg_type=2):
    body = (u16(version) + random + vec('session_id', session_id) + u16(cipher_suite) + u8(compression_method) +
            extensions_block(extensions))
    return handshake(msg_type, body)


def certificate(certificates):
    return handshake(11, vec('certificate_list', b''.join(vec('asn1_cert', cert) for cert in certificates)))


def server_key_exchange(params):
    return handshake(12, params)


def certificate_request(certificate_types, signature_algorithms, authorities):
    body = vec('certificate_types', bytes(certificate_types))
    if signature_algorithms is not None:
        body += vec('supported_signature_algorithms', b''.join(u16(alg) for alg in signature_algorithms))
    body += vec('certificate_authorities', b''.join(vec('distinguished_name', name) for name in authorities))
    return handshake(13, body)


def server_hello_done():
    return handshake(14, b'')


def certificate_status(status_type, response):
    return handshake(22, u8(status_type) + vec('ocsp_response', response))


# ---------------------------------------------------------------------------------------- extension payloads
def ext_server_name(host_name):
    return vec('server_name_list', u8(0) + vec('host_name', host_name))


def ext_ec_point_formats(formats):
    return vec('ec_point_format_list', bytes(formats))


def ext_supported_groups(groups):
    return vec('named_group_list', b''.join(u16(group) for group in groups))


def ext_supported_versions_client(versions):
    return vec('versions', b''.join(u16(version) for version in versions))


def ext_supported_versions_server(version):
    return u16(version)


def ext_signature_algorithms(algorithms):
    return vec('supported_signature_algorithms', b''.join(u16(alg) for alg in algorithms))


def key_share_entry(group, key_exchange):
    return u16(group) + vec('key_exchange', key_exchange)


def ext_key_share_client(entries):
    return vec('client_shares', b''.join(key_share_entry(group, key) for group, key in entries))


def ext_key_share_server(group, key_exchange):
    return key_share_entry(group, key_exchange)


def ext_key_share_hello_retry(group):
    return u16(group)


def ext_status_request(responder_ids, request_extensions):
    return (u8(1) + vec('responder_id_list', b''.join(vec('responder_id', rid) for rid in responder_ids)) +
            vec('request_extensions', request_extensions))


def ext_renegotiation_info(renegotiated_connection):
    return vec('renegotiated_connection', renegotiated_connection)


def ext_alpn(names):
    return vec('protocol_name_list', b''.join(vec('protocol_name', name) for name in names))


def ext_npn_server(names):
    """draft-agl-tls-nextprotoneg: the extension_data is the concatenation of 8-bit length prefixed names."""
    return b''.join(vec('protocol_name', name) for name in names)


def ext_token_binding(major, minor, parameters):
    return u8(major) + u8(minor) + vec('key_parameters', bytes(parameters))


def ext_psk_key_exchange_modes(modes):
    return vec('ke_modes', bytes(modes))


def ext_record_size_limit(limit):
    return u16(limit)


def ext_compress_certificate(algorithms):
    return vec('algorithms', b''.join(u16(alg) for alg in algorithms))


def ext_padding(length):
    return b'\x00' * length


def serialized_sct(version, log_id, timestamp_ms, ct_extensions, signature_algorithm, signature):
    assert len(log_id) == 32
    body = (u8(version) + log_id + u64(timestamp_ms) + vec('ct_extensions', ct_extensions) +
            u16(signature_algorithm) + vec('ct_signature', signature))
    return vec('serialized_sct', body)


def ext_sct_list(scts):
    return vec('sct_list', b''.join(scts))


GREASE = tuple(0x0a0a + 0x1010 * i for i in range(16))


def ja3(version, cipher_suites, extension_types, groups, point_formats):
    """The published JA3 definition: decimal values, '-' inside a section, ',' between sections, GREASE values
    ignored in every section, nothing else added, removed or reordered."""
    def section(values):
        return '-'.join(str(value) for value in values if value not in GREASE)
    return ','.join([str(version), section(cipher_suites), section(extension_types), section(groups or []),
                     '-'.join(str(value) for value in (point_formats or []))])
