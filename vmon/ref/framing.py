# -*- coding: utf-8 -*-
"""Independent frame-length decoders for the stream framing units (imports nothing from cryptoparser).

declared_length(kind, buf) -> total number of bytes of the first frame according to its header,
or None when the header itself is incomplete / not decodable.
"""


def tls_record(buf):
    if len(buf) < 5:
        return None
    return 5 + int.from_bytes(buf[3:5], 'big')


def ssl2_record(buf):
    if len(buf) < 2:
        return None
    if buf[0] & 0x80:
        return 2 + (((buf[0] & 0x7f) << 8) | buf[1])
    if len(buf) < 3:
        return None
    return 3 + (((buf[0] & 0x3f) << 8) | buf[1])


def tls_handshake(buf):
    if len(buf) < 4:
        return None
    return 4 + int.from_bytes(buf[1:4], 'big')


def ssh_packet(buf):
    if len(buf) < 4:
        return None
    return 4 + int.from_bytes(buf[0:4], 'big')


def ssh_banner(buf):
    index = bytes(buf).find(b'\n')
    if index < 0:
        return None
    return index + 1


def mysql_packet(buf):
    if len(buf) < 4:
        return None
    return 4 + int.from_bytes(buf[0:3], 'little')


def tpkt(buf):
    if len(buf) < 4:
        return None
    return int.from_bytes(buf[2:4], 'big')


def openvpn_tcp(buf):
    if len(buf) < 2:
        return None
    return 2 + int.from_bytes(buf[0:2], 'big')


def ber_tlv(buf):
    if len(buf) < 2:
        return None
    offset = 1
    if buf[0] & 0x1f == 0x1f:       # high tag number form
        while offset < len(buf) and buf[offset] & 0x80:
            offset += 1
        offset += 1
        if offset >= len(buf):
            return None
    first = buf[offset]
    if first < 0x80:
        return offset + 1 + first
    count = first & 0x7f
    if count == 0 or len(buf) < offset + 1 + count:
        return None
    return offset + 1 + count + int.from_bytes(buf[offset + 1:offset + 1 + count], 'big')


def postgresql_ssl_request(buf):
    return 8


def postgresql_sync(buf):
    return 1


# class name (without module) -> decoder; subclasses are matched through their MRO by the caller
FRAMING_UNITS = {
    'TlsRecord': tls_record,
    'SslRecord': ssl2_record,
    'TlsHandshakeMessage': tls_handshake,
    'TlsHandshakeMessageVariant': tls_handshake,
    'SshRecordBase': ssh_packet,
    'SshProtocolMessage': ssh_banner,
    'MySQLRecord': mysql_packet,
    'TPKT': tpkt,
    'OpenVpnPacketWrapperTcp': openvpn_tcp,
    'LDAPMessageParsableBase': ber_tlv,
    'SslRequest': postgresql_ssl_request,
    'Sync': postgresql_sync,
}


def decoder_for(cls):
    for klass in cls.__mro__:
        if klass.__name__ in FRAMING_UNITS and klass.__module__.startswith('cryptoparser.'):
            return FRAMING_UNITS[klass.__name__]
    return None
