# -*- coding: utf-8 -*-
"""Independent SSH encoders written from RFC 4251/4253/4419/5656/8709 and OpenSSH's PROTOCOL.certkeys.
Imports nothing from cryptoparser."""
import base64
import hashlib


def u8(value):
    return value.to_bytes(1, 'big')


def u32(value):
    return value.to_bytes(4, 'big')


def u64(value):
    return value.to_bytes(8, 'big')


def string(data):
    if isinstance(data, str):
        data = data.encode('utf-8')
    return u32(len(data)) + bytes(data)


def name_list(names):
    return string(','.join(names).encode('ascii'))


def mpint(value):
    """RFC 4251 section 5: two's complement, big endian, minimal, no unnecessary leading bytes."""
    if value == 0:
        return u32(0)
    length = ((value if value >= 0 else ~value).bit_length() // 8) + 1
    return string(value.to_bytes(length, 'big', signed=True))


def banner(major, minor, software, comment=None):
    text = 'SSH-%d.%d-%s' % (major, minor, software)
    if comment is not None:
        text += ' ' + comment
    return text.encode('ascii') + b'\r\n'


def binary_packet(payload, padding):
    """RFC 4253 section 6 (no MAC, block size 8): caller chooses the padding bytes."""
    assert 4 <= len(padding) <= 255 and (4 + 1 + len(payload) + len(padding)) % 8 == 0
    return u32(1 + len(payload) + len(padding)) + u8(len(padding)) + bytes(payload) + bytes(padding)


def minimal_padding_length(payload_length):
    padding = 8 - ((payload_length + 5) % 8)
    if padding < 4:
        padding += 8
    return padding


def check_packet(packet):
    """The padding rule as constraints. Returns (payload, problem or None)."""
    if len(packet) < 5:
        return None, 'shorter than the 5 byte header'
    packet_length = int.from_bytes(packet[:4], 'big')
    padding_length = packet[4]
    if len(packet) % 8:
        return None, 'total length %d is not a multiple of 8' % len(packet)
    if packet_length != len(packet) - 4:
        return None, 'packet_length %d but %d bytes follow the length field' % (packet_length, len(packet) - 4)
    if not 4 <= padding_length <= 255:
        return None, 'padding length %d outside 4..255' % padding_length
    payload_length = packet_length - padding_length - 1
    if payload_length < 0:
        return None, 'padding longer than the packet'
    return packet[5:5 + payload_length], None


def kexinit(cookie, lists, first_kex_packet_follows, reserved=0):
    """lists: the ten name-lists in RFC 4253 section 7.1 order."""
    assert len(cookie) == 16 and len(lists) == 10
    return (u8(20) + bytes(cookie) + b''.join(name_list(names) for names in lists) +
            u8(1 if first_kex_packet_follows else 0) + u32(reserved))


def disconnect(reason, description, language):
    return u8(1) + u32(reason) + string(description.encode('utf-8')) + string(language.encode('ascii'))


def unimplemented(sequence_number):
    return u8(3) + u32(sequence_number)


def newkeys():
    return u8(21)


def kexdh_init(e_bytes, code=30):
    return u8(code) + string(e_bytes)


def kexdh_reply(host_key_blob, f_bytes, signature, code=31):
    return u8(code) + string(host_key_blob) + string(f_bytes) + string(signature)


def gex_request(minimum, preferred, maximum):
    return u8(34) + u32(minimum) + u32(preferred) + u32(maximum)


def gex_group(p_bytes, g_bytes):
    return u8(31) + string(p_bytes) + string(g_bytes)


# ------------------------------------------------------------------------------------ public key blobs
def key_fields_rsa(exponent, modulus):
    return mpint(exponent) + mpint(modulus)


def key_fields_dss(p, q, g, y):  # pylint: disable=invalid-name
    return mpint(p) + mpint(q) + mpint(g) + mpint(y)


def key_fields_ecdsa(curve_identifier, point):
    return string(curve_identifier.encode('ascii')) + string(point)


def key_fields_ed25519(key_data):
    return string(key_data)


def key_blob(algorithm_name, key_fields):
    return string(algorithm_name.encode('ascii')) + key_fields


def packed_strings(values):
    return string(b''.join(string(value) for value in values))


def option(name, data):
    """PROTOCOL.certkeys: a sequence of (string name, string data) tuples; where an option carries a value the
    data itself is a packed string."""
    return string(name.encode('ascii')) + string(data)


def certificate_v01(algorithm_name, nonce, key_fields, serial, cert_type, key_id, principals, valid_after, valid_before,
                    critical_options, extensions, reserved, signature_key_blob, signature_blob):
    return (string(algorithm_name.encode('ascii')) + string(nonce) + key_fields + u64(serial) + u32(cert_type) +
            string(key_id.encode('ascii')) + packed_strings([p.encode('ascii') for p in principals]) +
            u64(valid_after) + u64(valid_before) + string(b''.join(critical_options)) + string(b''.join(extensions)) +
            string(reserved) + string(signature_key_blob) + string(signature_blob))


def certificate_v00(algorithm_name, key_fields, cert_type, key_id, principals, valid_after, valid_before, constraints, nonce,
                    reserved, signature_key_blob, signature_blob):
    return (string(algorithm_name.encode('ascii')) + key_fields + u32(cert_type) + string(key_id.encode('ascii')) +
            packed_strings([p.encode('ascii') for p in principals]) + u64(valid_after) + u64(valid_before) +
            string(b''.join(constraints)) + string(nonce) + string(reserved) + string(signature_key_blob) +
            string(signature_blob))


def signature_blob(algorithm_name, signature):
    return string(algorithm_name.encode('ascii')) + string(signature)


# ------------------------------------------------------------------------------------ fingerprints
def hassh(kex, encryption, mac, compression):
    text = ';'.join(','.join(names) for names in (kex, encryption, mac, compression))
    return hashlib.md5(text.encode('ascii')).hexdigest()


def fingerprints(blob):
    md5 = hashlib.md5(blob).hexdigest()
    return {
        'SHA256': 'SHA256:' + base64.b64encode(hashlib.sha256(blob).digest()).decode('ascii'),
        'SHA1': 'SHA1:' + base64.b64encode(hashlib.sha1(blob).digest()).decode('ascii'),
        'MD5': 'MD5:' + ':'.join(md5[i:i + 2] for i in range(0, len(md5), 2)),
    }


def known_hosts(blob):
    return base64.b64encode(blob).decode('ascii')
