# -*- coding: utf-8 -*-
"""Independent DNS RDATA encoders from RFC 1035/2536/3110/4034/5933/6605/8080. Imports nothing from cryptoparser."""


def u8(value):
    return value.to_bytes(1, 'big')


def u16(value):
    return value.to_bytes(2, 'big')


def u32(value):
    return value.to_bytes(4, 'big')


def unsigned(value):
    """Big-endian, no leading zero octets (RFC 3110: 'leading zero octets are prohibited')."""
    return value.to_bytes(max(1, (value.bit_length() + 7) // 8), 'big')


def name(labels):
    """Uncompressed domain name: length-prefixed labels, terminated by the root label."""
    return b''.join(u8(len(label)) + label for label in labels) + b'\x00'


def key_rsa(exponent, modulus):
    exponent_bytes = unsigned(exponent)
    if len(exponent_bytes) <= 255:
        prefix = u8(len(exponent_bytes))
    else:
        prefix = u8(0) + u16(len(exponent_bytes))
    return prefix + exponent_bytes + unsigned(modulus)


def key_dsa(t, q, p, g, y):  # pylint: disable=invalid-name
    size = 64 + t * 8
    return u8(t) + q.to_bytes(20, 'big') + p.to_bytes(size, 'big') + g.to_bytes(size, 'big') + y.to_bytes(size, 'big')


def key_ecdsa(x, y, size):  # pylint: disable=invalid-name
    return x.to_bytes(size, 'big') + y.to_bytes(size, 'big')


def key_gost(x, y):  # pylint: disable=invalid-name
    """RFC 5933 section 2.1: 64 octets, little-endian x then little-endian y."""
    return x.to_bytes(32, 'little') + y.to_bytes(32, 'little')


def dnskey(flags, protocol, algorithm, public_key):
    return u16(flags) + u8(protocol) + u8(algorithm) + public_key


def key_tag(rdata, algorithm=None, modulus=None):
    """RFC 4034 Appendix B (and B.1 for algorithm 1)."""
    if algorithm == 1:
        return (modulus >> 8) & 0xffff
    accumulator = 0
    for index, octet in enumerate(rdata):
        accumulator += octet if index & 1 else octet << 8
    accumulator += (accumulator >> 16) & 0xffff
    return accumulator & 0xffff


def ds(tag, algorithm, digest_type, digest):  # pylint: disable=invalid-name
    return u16(tag) + u8(algorithm) + u8(digest_type) + digest


def rrsig(type_covered, algorithm, labels, original_ttl, expiration, inception, tag, signer_labels, signature):
    return (u16(type_covered) + u8(algorithm) + u8(labels) + u32(original_ttl) + u32(expiration) + u32(inception) +
            u16(tag) + name(signer_labels) + signature)


def mx(preference, exchange_labels):  # pylint: disable=invalid-name
    return u16(preference) + name(exchange_labels)


def txt(strings):
    return b''.join(u8(len(chunk)) + chunk for chunk in strings)
