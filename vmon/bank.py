# -*- coding: utf-8 -*-
"""Object bank: every library object reachable from parsing the seed corpus, grouped by class."""
from vmon import inventory, objgen, pipeline

_BANK = {}


def objects_by_class():
    if _BANK:
        return _BANK
    classes = inventory.parsable_classes(concrete_only=False)
    for name, data in pipeline.load_corpus():
        cls = classes.get(name)
        if cls is None:
            continue
        try:
            obj, _ = cls.parse_immutable(data)
        except Exception:  # pylint: disable=broad-except
            continue
        for item in [obj] + objgen.sub_objects(obj, limit=200):
            _BANK.setdefault(inventory.class_name(type(item)), []).append((item, name, data))
    return _BANK
