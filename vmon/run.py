# -*- coding: utf-8 -*-
"""CLI: python -m vmon.run <ID> [--tier quick|thorough] [--replay path] [--triage]

Exit codes: 0 held (KNOWN-FINDING lines allowed) / 1 + VIOLATION line(s) / 2 + INCONCLUSIVE.
"""
import argparse
import collections
import faulthandler
import importlib
import json
import os
import shutil
import subprocess
import sys
import tempfile
import time
import traceback

from vmon import bootstrap, core

MAX_VIOLATION_LINES = 20
SHARD_TIMEOUT = {'quick': 900, 'thorough': 3 * 3600}


def load_check(prop):
    module = importlib.import_module('vmon.checks.%s' % prop.lower())
    return module.Check


def run_shard(check_class, tier, seed, shard, nshards, triage=False):
    """Runs one shard in this process; returns a JSON-able summary."""
    started = time.time()
    bootstrap.init()
    check = check_class(tier, seed, shard, nshards)
    check.setup()
    known = core.load_known_findings(check.ID)
    observed = collections.OrderedDict()   # key -> first Violation
    counts = collections.Counter()
    cases_per_key = collections.Counter()
    harness_errors = []

    def run_case(case, origin):
        with core.case_time_zone(check, case):
            try:
                found = check.judge(case)
            except Exception:  # pylint: disable=broad-except
                harness_errors.append({'case': core.jsonable(case), 'trace': traceback.format_exc()[-1500:]})
                return []
        for key in set(violation.key for violation in found):
            cases_per_key[key] += 1
        for violation in found:
            counts[violation.key] += 1
            if violation.key not in observed:
                violation.origin = origin
                observed[violation.key] = violation
        return found

    # 1. replay the witnesses of open known findings (deterministic KNOWN-FINDING lines)
    replayed = {}
    if shard == 0:
        for entry in known:
            if entry.get('status') != 'open' or 'witness' not in entry:
                continue
            before = set(observed)
            found = run_case(entry['witness'], 'witness')
            keys = set(v.key for v in found)
            replayed[entry['key']] = any(core.key_matches(entry['key'], key) for key in keys)
            del before

    # 2. exploration
    for case in check.cases():
        run_case(case, 'exploration')

    # 3. confirmation by replay of every key not listed as open
    open_keys = [entry['key'] for entry in known if entry.get('status') == 'open']
    violations = []
    flaky = []
    for key, violation in observed.items():
        if any(core.key_matches(entry_key, key) for entry_key in open_keys):
            continue
        # a key counts once it has been observed a second time. The library draws from the process-wide RNG in a few places
        # (default cookies, paddings), so a failure that depends on the draw needs more than one further attempt to show again
        again_seen = cases_per_key[key] >= 2      # observed by two different cases already
        for _ in range(0 if again_seen else 8):
            try:
                with core.case_time_zone(check, violation.case):
                    again = check.judge(violation.case)
            except Exception:  # pylint: disable=broad-except
                again = []
            if any(v.key == key for v in again):
                again_seen = True
                break
        if again_seen:
            violations.append(violation.as_dict())
        elif confirmed_in_fresh_process(check, violation) or confirmed_in_fresh_process(check, violation):
            # fires once per process (state left behind in a class or module): reproducible from a fresh interpreter only
            violations.append(violation.as_dict())
        else:
            flaky.append(violation.as_dict())

    summary = {
        'shard': shard,
        'evaluations': check.evaluations,
        'digests': sorted(check.digests),
        'samples': check.samples,
        'stats': dict(check.stats),
        'extra': core.jsonable(check.finish()),
        'observed_keys': {key: counts[key] for key in observed},
        'observed_what': {key: observed[key].what for key in observed},
        'observed_case': {key: core.jsonable(observed[key].case) for key in observed} if triage else {},
        'replayed': replayed,
        'violations': violations,
        'flaky': flaky,
        'harness_errors': harness_errors[:5],
        'harness_error_count': len(harness_errors),
        'inconclusive': list(check.inconclusive),
        'wall_s': time.time() - started,
    }
    return summary


def merge(summaries):
    merged = {
        'evaluations': 0, 'digests': set(), 'samples': [], 'stats': collections.Counter(), 'extra': {},
        'observed_keys': collections.Counter(), 'observed_what': {}, 'observed_case': {}, 'replayed': {},
        'violations': [], 'flaky': [], 'harness_errors': [], 'harness_error_count': 0, 'inconclusive': [],
    }
    for summary in summaries:
        merged['evaluations'] += summary['evaluations']
        merged['digests'].update(summary['digests'])
        merged['samples'].extend(summary['samples'])
        merged['stats'].update(summary['stats'])
        for name, value in summary['extra'].items():
            if isinstance(value, bool) or name not in merged['extra']:
                merged['extra'][name] = value
            elif isinstance(value, (int, float)) and isinstance(merged['extra'][name], (int, float)):
                merged['extra'][name] += value
            elif isinstance(value, list) and isinstance(merged['extra'][name], list):
                for item in value:
                    if item not in merged['extra'][name]:
                        merged['extra'][name].append(item)
            elif isinstance(value, dict) and isinstance(merged['extra'][name], dict):
                for sub, subvalue in value.items():
                    if isinstance(subvalue, (int, float)) and not isinstance(subvalue, bool) and \
                            isinstance(merged['extra'][name].get(sub), (int, float)):
                        merged['extra'][name][sub] += subvalue
                    else:
                        merged['extra'][name].setdefault(sub, subvalue)
        merged['observed_keys'].update(summary['observed_keys'])
        for key, what in summary['observed_what'].items():
            merged['observed_what'].setdefault(key, what)
        for key, case in summary.get('observed_case', {}).items():
            merged['observed_case'].setdefault(key, case)
        merged['replayed'].update(summary['replayed'])
        merged['violations'].extend(summary['violations'])
        merged['flaky'].extend(summary['flaky'])
        merged['harness_errors'].extend(summary['harness_errors'])
        merged['harness_error_count'] += summary['harness_error_count']
        merged['inconclusive'].extend(summary['inconclusive'])
    # a key that two shards (two processes, disjoint cases) observed independently has been observed twice: confirmed
    per_key = collections.Counter(entry['key'] for entry in merged['flaky'])
    confirmed = set(key for key, count in per_key.items() if count >= 2) | \
        set(entry['key'] for entry in merged['flaky'] if any(v['key'] == entry['key'] for v in merged['violations']))
    if confirmed:
        for key in sorted(confirmed):
            if not any(v['key'] == key for v in merged['violations']):
                merged['violations'].append(next(entry for entry in merged['flaky'] if entry['key'] == key))
        merged['flaky'] = [entry for entry in merged['flaky'] if entry['key'] not in confirmed]
    return merged


def spawn_shards(prop, tier, seed, nshards, triage):
    scratch = tempfile.mkdtemp(prefix='vmon-%s-' % prop)
    summaries = []
    problems = []
    try:
        procs = []
        for shard in range(nshards):
            out = os.path.join(scratch, 'shard-%d.json' % shard)
            cmd = [sys.executable, '-X', 'faulthandler', '-m', 'vmon.run', prop, '--tier', tier,
                   '--shard', '%d/%d' % (shard, nshards), '--out', out]
            if triage:
                cmd.append('--triage')
            env = dict(os.environ, VERIF_SEED=str(seed))
            log = open(os.path.join(scratch, 'shard-%d.log' % shard), 'w')
            procs.append((shard, out, log, subprocess.Popen(cmd, cwd=bootstrap.VERIF, env=env,
                                                            stdout=log, stderr=subprocess.STDOUT)))
        deadline = time.time() + SHARD_TIMEOUT[tier]
        for shard, out, log, proc in procs:
            try:
                proc.wait(timeout=max(1, deadline - time.time()))
            except subprocess.TimeoutExpired:
                proc.kill()
                proc.wait()
                problems.append('shard %d: watchdog timeout' % shard)
                continue
            finally:
                log.close()
            if proc.returncode != 0 or not os.path.exists(out):
                with open(log.name) as handle:
                    tail = handle.read()[-800:]
                problems.append('shard %d: exit %s: %s' % (shard, proc.returncode, tail))
                continue
            with open(out) as handle:
                summaries.append(json.load(handle))
    finally:
        shutil.rmtree(scratch, ignore_errors=True)
    return summaries, problems


def confirmed_in_fresh_process(check, violation):
    """Replays one observation with `--replay` in a new interpreter; True when the same key fires there."""
    import subprocess  # pylint: disable=import-outside-toplevel
    import tempfile  # pylint: disable=import-outside-toplevel
    directory = os.path.join(bootstrap.WORK, 'confirm')
    os.makedirs(directory, exist_ok=True)
    handle, path = tempfile.mkstemp(suffix='.json', dir=directory)
    try:
        with os.fdopen(handle, 'w') as stream:
            json.dump(violation.as_dict(), stream)
        result = subprocess.run([sys.executable, '-m', 'vmon.run', check.ID, '--tier', check.tier, '--replay', path],
                                capture_output=True, text=True, timeout=600, check=False,
                                cwd=os.path.dirname(os.path.dirname(os.path.abspath(__file__))))
        return result.returncode == 1 and 'VIOLATION property=' in result.stdout
    except Exception:  # pylint: disable=broad-except
        return False
    finally:
        try:
            os.unlink(path)
        except OSError:
            pass


def write_replay(prop, index, violation):
    directory = os.path.join(bootstrap.WORK, 'replay')
    os.makedirs(directory, exist_ok=True)
    path = os.path.join(directory, '%s-%03d.json' % (prop, index))
    with open(path, 'w') as handle:
        json.dump(violation, handle, indent=1, sort_keys=True)
    return path


def main(argv=None):  # pylint: disable=too-many-locals,too-many-branches,too-many-statements
    parser = argparse.ArgumentParser()
    parser.add_argument('property')
    parser.add_argument('--tier', default=os.environ.get('VERIF_TIER', 'quick'), choices=['quick', 'thorough'])
    parser.add_argument('--shard', default=None)
    parser.add_argument('--out', default=None)
    parser.add_argument('--replay', default=None)
    parser.add_argument('--triage', action='store_true')
    parser.add_argument('--shards', type=int, default=None)
    parser.add_argument('--emit-all', default=None,
                        help='development aid (with --triage): dump one witness case per observed key, known ones included')
    parser.add_argument('--emit-findings', default=None,
                        help='development aid: dump the unknown violations as known-findings entries for review')
    args = parser.parse_args(argv)
    prop = args.property.upper()
    seed = bootstrap.seed()
    started = time.time()
    faulthandler.enable()
    check_class = load_check(prop)

    if args.replay:
        bootstrap.init()
        with open(args.replay) as handle:
            record = json.load(handle)
        check = check_class(args.tier, seed)
        check.setup()
        with core.case_time_zone(check, record['case']):
            found = check.judge(record['case'])
        for violation in found:
            print('REPRODUCED %s: %s' % (violation.key, violation.what))
        if any(v.key == record.get('key') for v in found):
            print('VIOLATION property=%s replay=%s' % (prop, args.replay))
            return 1
        print('not reproduced: %s' % record.get('key'))
        return 0

    if args.shard:
        shard, nshards = [int(part) for part in args.shard.split('/')]
        summary = run_shard(check_class, args.tier, seed, shard, nshards, args.triage)
        with open(args.out, 'w') as handle:
            json.dump(summary, handle)
        return 0

    nshards = args.shards or check_class.SHARDS.get(args.tier, 1)
    problems = []
    if nshards == 1:
        summaries = [run_shard(check_class, args.tier, seed, 0, 1, args.triage)]
    else:
        summaries, problems = spawn_shards(prop, args.tier, seed, nshards, args.triage)
    merged = merge(summaries)
    known = core.load_known_findings(prop)
    open_entries = [entry for entry in known if entry.get('status') == 'open']

    # known findings that fired (witness replay or exploration)
    matched = collections.OrderedDict()
    for entry in open_entries:
        hits = sum(count for key, count in merged['observed_keys'].items() if core.key_matches(entry['key'], key))
        if hits or merged['replayed'].get(entry['key']):
            matched[entry['key']] = hits
            print('KNOWN-FINDING: property=%s %s -- %s' % (prop, entry['key'], entry.get('what', '')))

    # unknown, confirmed violations -> one per key
    by_key = collections.OrderedDict()
    for violation in merged['violations']:
        by_key.setdefault(violation['key'], violation)
    replay_paths = []
    for index, (key, violation) in enumerate(by_key.items()):
        path = write_replay(prop, index, violation)
        replay_paths.append(path)
        if index < MAX_VIOLATION_LINES:
            print('VIOLATION property=%s replay=%s' % (prop, path))
            print('  key=%s\n  what=%s' % (key, violation['what'][:300]))

    if args.emit_all:
        with open(args.emit_all, 'w') as handle:
            json.dump(merged['observed_case'], handle, indent=1)
    if args.emit_findings:
        with open(args.emit_findings, 'w') as handle:
            json.dump([{'property': prop, 'status': 'open', 'key': key, 'what': violation['what'][:300],
                        'witness': violation['case']} for key, violation in by_key.items()], handle, indent=1)

    # inconclusive?
    reasons = list(merged['inconclusive']) + problems
    floors = check_class(args.tier, seed).floors()
    totals = dict(merged['stats'])
    totals['evaluations'] = merged['evaluations']
    totals['distinct_nontrivial'] = len(merged['digests'])
    for name, value in merged['extra'].items():
        if isinstance(value, list):
            totals[name] = len(value)
    for name, minimum in floors.items():
        if totals.get(name, 0) < minimum:
            reasons.append('monitor floor not reached: %s=%s < %s' % (name, totals.get(name, 0), minimum))
    if merged['harness_error_count']:
        reasons.append('%d harness errors, first: %s' % (
            merged['harness_error_count'], merged['harness_errors'][0]['trace'][-400:].replace('\n', ' | ')))
    flaky_keys = sorted(set(v['key'] for v in merged['flaky']))
    if flaky_keys:
        reasons.append('unconfirmed (flaky) observations: %s' % ', '.join(flaky_keys[:5]))

    if args.triage:
        print('--- triage: every distinct key observed ---')
        for key, count in sorted(merged['observed_keys'].items()):
            status = 'known' if any(core.key_matches(e['key'], key) for e in open_entries) else 'UNKNOWN'
            print('%-7s x%-6d %s\n        %s' % (status, count, key, merged['observed_what'].get(key, '')[:400]))
            if key in merged['observed_case']:
                print('        case=%s' % json.dumps(merged['observed_case'][key])[:600])

    wall = time.time() - started
    coverage = {
        'evaluations': merged['evaluations'],
        'distinct_nontrivial': len(merged['digests']),
        'rule': check_class.RULE,
        'samples': merged['samples'][:12],
        'exhaustive': bool(check_class.EXHAUSTIVE),
        'monitor_stats': dict(merged['stats']),
        'known_findings_matched': matched,
        'unknown_violation_keys': list(by_key),
        'flaky_observations': flaky_keys,
        'inconclusive_reasons': reasons,
        'shards': nshards,
        'icontract': bootstrap.ICONTRACT if nshards == 1 else 'see shards',
        'repo': bootstrap.REPO,
    }
    coverage.update(merged['extra'])
    evidence = {
        'property_id': prop,
        'tier': args.tier,
        'seed': seed,
        'level': 'exploration',
        'coverage': coverage,
        'assumptions': list(check_class.ASSUMPTIONS),
        'wall_s': round(wall, 2),
        'violations': len(by_key),
    }
    # VERIF_EVIDENCE_DIR: development aid (runs against scratch copies must not overwrite the committed evidence)
    evidence_dir = os.environ.get('VERIF_EVIDENCE_DIR') or os.path.join(bootstrap.VERIF, 'evidence')
    os.makedirs(evidence_dir, exist_ok=True)
    with open(os.path.join(evidence_dir, '%s.json' % prop), 'w') as handle:
        json.dump(evidence, handle, indent=1, sort_keys=True, default=repr)
        handle.write('\n')

    print('%s tier=%s seed=%s: %d evaluations, %d distinct non-trivial, %d known findings matched, '
          '%d unknown violation keys, %.1fs' % (prop, args.tier, seed, merged['evaluations'],
                                                len(merged['digests']), len(matched), len(by_key), wall))
    if by_key:
        return 1
    if reasons:
        for reason in reasons[:10]:
            print('INCONCLUSIVE property=%s reason=%s' % (prop, reason))
        return 2
    return 0


if __name__ == '__main__':
    sys.exit(main())
