# -*- coding: utf-8 -*-
"""History monitor: what a parse returns is a function of the bytes alone.

The same list of (class, input) entries is parsed in several fresh interpreters, each in another order (sorted,
reversed, rotated inside and across classes, interleaved, shuffled). Every child reports a digest of the outcome of
each entry - consumed length and structural state, or the exception type. The parent compares the digests entry by
entry: an entry whose outcome depends on what was parsed before it (a cache, a memo, class-level state) differs
between two children.
"""
import hashlib
import json
import os
import random
import re
import subprocess
import sys
import tempfile

from vmon import bootstrap


def order_of(entries, label):
    """Deterministic permutation of range(len(entries)) for an order label."""
    indices = list(range(len(entries)))
    by_class = {}
    for index in indices:
        by_class.setdefault(entries[index][0], []).append(index)
    names = sorted(by_class)
    if label == 'sorted':
        return [index for name in names for index in by_class[name]]
    if label == 'reversed':
        return [index for name in reversed(names) for index in reversed(by_class[name])]
    if label == 'interleaved':
        result, depth = [], 0
        while len(result) < len(indices):
            for name in names:
                if depth < len(by_class[name]):
                    result.append(by_class[name][depth])
            depth += 1
        return result
    if label.startswith('rotate-'):
        shift = int(label.split('-')[1])
        rotated = names[shift % len(names):] + names[:shift % len(names)] if names else []
        if shift % 2:
            rotated.reverse()
        result = []
        for name in rotated:
            members = by_class[name]
            cut = shift % len(members)
            result.extend(members[cut:] + members[:cut])
        return result
    if label.startswith('shuffle-'):
        random.Random(label).shuffle(indices)
        return indices
    raise ValueError(label)


def outcome_digest(cls, data):
    from vmon import structural  # pylint: disable=import-outside-toplevel
    try:
        obj, consumed = cls.parse_immutable(data)
    except Exception as e:  # pylint: disable=broad-except
        return 'raised:' + type(e).__name__
    state = re.sub(r' at 0x[0-9a-fA-F]+', '', repr((consumed, structural.deep_state(obj, strict_types=True))))   # no addresses
    composed = 'none'
    if hasattr(obj, 'compose'):
        # what the parsed object composes to is part of the outcome (encodings remembered per class, per key, per name)
        try:
            composed = hashlib.sha1(bytes(obj.compose())).hexdigest()[:12]
        except Exception as e:  # pylint: disable=broad-except
            composed = 'raised-' + type(e).__name__
    return 'ok:%d:%s:%s' % (consumed, hashlib.sha1(state.encode('utf-8', 'replace')).hexdigest()[:20], composed)


def child_main(argv):
    """argv = [entries file, order label]; prints ORDERCHILD {index: digest}."""
    from vmon import inventory  # pylint: disable=import-outside-toplevel
    bootstrap.init()
    with open(argv[0]) as handle:
        entries = json.load(handle)
    classes = {}
    result = {}
    for index in order_of(entries, argv[1]):
        name, hex_data = entries[index]
        if name not in classes:
            classes[name] = inventory.resolve(name)
        result[index] = outcome_digest(classes[name], bytes.fromhex(hex_data))
    print('ORDERCHILD ' + json.dumps(result))


def run_children(entries, labels, timeout=900):
    """{label: {index: digest}} plus a list of problems (child failed / timed out)."""
    os.makedirs(bootstrap.WORK, exist_ok=True)
    handle, path = tempfile.mkstemp(suffix='.json', dir=bootstrap.WORK)
    results, problems = {}, []
    try:
        with os.fdopen(handle, 'w') as stream:
            json.dump(entries, stream)
        for label in labels:
            try:
                proc = subprocess.run([sys.executable, '-c',
                                       'import sys; sys.path.insert(0, %r); from vmon import orderfree; '
                                       'orderfree.child_main(sys.argv[1:])' % bootstrap.VERIF, path, label],
                                      cwd=bootstrap.VERIF, capture_output=True, text=True, timeout=timeout, check=False)
            except subprocess.TimeoutExpired:
                problems.append('order child %s timed out' % label)
                continue
            line = [l for l in proc.stdout.splitlines() if l.startswith('ORDERCHILD ')]
            if not line:
                problems.append('order child %s failed: %s' % (label, proc.stderr[-300:]))
                continue
            results[label] = {int(key): value for key, value in json.loads(line[0][len('ORDERCHILD '):]).items()}
    finally:
        try:
            os.unlink(path)
        except OSError:
            pass
    return results, problems
