#!/bin/bash
# Development aid: after a generator changed, move the index-based witnesses of the differential checks to the current streams
# and list what is still stale.
cd "$(dirname "$0")/.."
export VERIF_EVIDENCE_DIR=${VERIF_EVIDENCE_DIR:-/tmp/ev_scratch}; mkdir -p "$VERIF_EVIDENCE_DIR"
for id in C06 C07 C08 C09 C15 C16; do echo "$id: $(/venv/bin/python tools/kf_refresh.py $id | tail -1)"; done
/venv/bin/python tools/kf_stale.py | grep STALE
