#!/venv/bin/python
"""Regenerates MANIFEST.json from the list of implemented checks (vmon/checks/cNN.py) and validates it."""
import importlib, json, os, sys
HERE = os.path.dirname(os.path.dirname(os.path.abspath(__file__)))
sys.path.insert(0, HERE)
props = [json.loads(l) for l in open(os.path.join(HERE, 'properties.jsonl'))]
LEVEL_TEXT = {}
meta = json.load(open(os.path.join(HERE, 'tools', 'manifest_meta.json')))
checks, na = [], []
for p in props:
    pid = p['id']
    path = os.path.join(HERE, 'vmon', 'checks', pid.lower() + '.py')
    m = meta.get(pid, {})
    if not os.path.exists(path) or m.get('disabled'):
        na.append({'property_id': pid, 'reason': m.get('reason', 'check not built yet (work in progress); the property is in reach of runtime monitoring, see DESIGN.md')})
        continue
    mod = importlib.import_module('vmon.checks.' + pid.lower())
    checks.append({
        'property_id': pid,
        'quick_cmd': './vcheck %s --tier quick' % pid,
        'thorough_cmd': './vcheck %s --tier thorough' % pid,
        'evidence_file': 'evidence/%s.json' % pid,
        'replay_cmd_template': './vcheck %s --replay {path}' % pid,
        'engine': 'vmon',
        'level_claimed': {'category': 'exploration', 'text': m['text'], 'design_ref': 'DESIGN.md §3 ' + pid},
        'level_note': m['note'],
        'technique': mod.Check.TECHNIQUE,
    })
manifest = {
    'version': 1,
    'setup_cmd': './vcheck --setup',
    'hooks': {
        'guard': 'C0R0N3R_CRYPTOPARSER_VERIF',
        'enable': 'no source hooks: monitors are attached from /verif/vmon at import time by rebinding class attributes (entry points, compose, ArrayBase invariant via icontract) and via sys.monitoring; cryptoparser is imported from the working tree of /repo (VERIF_REPO)',
        'baseline_off_cmd': 'cd /repo && /venv/bin/python -m pytest -ra -q -p no:cacheprovider --timeout=900 --continue-on-collection-errors',
        'source_commits': [],
        'add_only': True,
    },
    'engines': [{'name': 'vmon', 'path': 'vmon/', 'serves_properties': [c['property_id'] for c in checks],
                 'kind_free_text': 'runtime monitors (wrapped entry points, icontract invariants, sys.monitoring step counter, reference-model differential oracles) driven by seeded generated/mutated workloads over the real library'}],
    'checks': checks,
    'not_applicable': na,
    'notes': 'All checks: ./vcheck <ID> --tier quick|thorough; exit 0 held / 1 VIOLATION / 2 INCONCLUSIVE. Known findings: known_findings.json.',
}
json.dump(manifest, open(os.path.join(HERE, 'MANIFEST.json'), 'w'), indent=1)
try:
    raise ImportError()
    sys.path.append('/opt/veriftools/pyvenv/lib/python3.11/site-packages')
    import jsonschema
    jsonschema.validate(manifest, json.load(open('/root/.vp/MANIFEST.schema.json')))
    print('MANIFEST.json valid: %d checks, %d not_applicable' % (len(checks), len(na)))
except ImportError:
    print('jsonschema unavailable; written without validation')
