#!/bin/bash
# usage: tools/seedtest.sh <patch.diff> <demo.py|-> <tier> <ids...>
# Applies the patch to a scratch worktree of /repo HEAD (outside /repo and /verif), checks that the repo's tests still
# pass, runs the demo with and without the patch, runs the given checks against the scratch tree, removes the worktree.
patch=$(readlink -f "$1"); demo="$2"; tier="$3"; shift 3
work=$(mktemp -d /tmp/seedtest-XXXXXX); rmdir "$work"
git -C /repo worktree add -q --detach "$work" HEAD || exit 2
trap 'git -C /repo worktree remove --force "$work" >/dev/null 2>&1; rm -rf "$work"' EXIT
if [ "$demo" != "-" ]; then
  demo=$(readlink -f "$demo")
  sed "s#/tmp/seed[0-9]*/C[0-9][0-9]#$work#g" "$demo" > "$work/_demo.py"
  (cd "$work" && PYTHONPATH="$work" /venv/bin/python _demo.py >/dev/null 2>&1); echo "demo without patch: exit $?"
fi
git -C "$work" apply "$patch" || { echo "PATCH DOES NOT APPLY"; exit 2; }
(cd "$work" && /venv/bin/python -m pytest -q -p no:cacheprovider 2>&1 | tail -1)
if [ "$demo" != "-" ]; then
  (cd "$work" && PYTHONPATH="$work" /venv/bin/python _demo.py >/dev/null 2>&1); echo "demo with patch:    exit $?"
fi
export VERIF_REPO="$work" VERIF_EVIDENCE_DIR="$work/_evidence"
for id in "$@"; do
  out=$(/verif/vcheck $id --tier $tier 2>&1); code=$?
  echo "--- $id exit=$code  $(echo "$out" | grep -c '^VIOLATION') violation lines"
  echo "$out" | grep -A2 '^VIOLATION' | grep 'key=\|what=' | head -6 | cut -c1-260
  echo "$out" | grep '^INCONCLUSIVE' | head -2 | cut -c1-260
done
