#!/bin/bash
# usage: tools/sweep_all.sh <tier> ; env SEEDS="1 2 3"
tier=$1
for id in C01 C02 C03 C04 C05 C06 C07 C08 C09 C10 C11 C12 C13 C14 C15 C16 C17 C18 C19; do for s in ${SEEDS:-1 2 3}; do
  out=$(VERIF_SEED=$s ./vcheck $id --tier $tier --triage 2>&1); code=$?
  echo "=== $id tier=$tier seed=$s exit=$code"; echo "$out" | grep -E "^UNKNOWN|^INCONCLUSIVE|^C[0-9]+ tier" | cut -c1-300
done; done
