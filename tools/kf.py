#!/venv/bin/python
"""Development aid: add an entry to known_findings.json.  kf.py <property> <open|fixed> <key> <what> <witness-json> [commit]"""
import json, os, sys
HERE = os.path.dirname(os.path.dirname(os.path.abspath(__file__)))
path = os.path.join(HERE, 'known_findings.json')
data = json.load(open(path))
prop, status, key, what, witness = sys.argv[1:6]
entry = {'property': prop, 'status': status, 'key': key, 'what': what, 'witness': json.loads(witness)}
if len(sys.argv) > 6:
    entry['commit'] = sys.argv[6]
    entry['what'] = 'fixed: property=%s %s %s' % (prop, sys.argv[6], what)
data['findings'] = [e for e in data['findings'] if not (e['property'] == prop and e['key'] == key)] + [entry]
data['findings'].sort(key=lambda e: (e['property'], e['status'], e['key']))
json.dump(data, open(path, 'w'), indent=1)
print('entries:', len(data['findings']))
