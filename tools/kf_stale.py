#!/venv/bin/python
"""Development aid: list open known findings whose witness no longer fires on the current tree (candidates for status=fixed)."""
import json, os, subprocess, sys
HERE = os.path.dirname(os.path.dirname(os.path.abspath(__file__)))
sys.path.insert(0, HERE)
os.environ.setdefault('PYTHONHASHSEED', '0')
from vmon import bootstrap, core, run
bootstrap.init()
data = json.load(open(os.path.join(HERE, 'known_findings.json')))
checks = {}
for entry in data['findings']:
    if entry['status'] != 'open':
        continue
    prop = entry['property']
    if prop not in checks:
        cls = run.load_check(prop)
        checks[prop] = cls('quick', 0)
        checks[prop].setup()
    check = checks[prop]
    try:
        with core.case_time_zone(check, entry['witness']):
            found = check.judge(entry['witness'])
    except Exception as e:
        print('ERROR  ', entry['key'], repr(e)[:100]); continue
    if not any(core.key_matches(entry['key'], v.key) for v in found):
        print('STALE  ', entry['key'], '| now:', [v.key for v in found][:2])
