#!/venv/bin/python
"""Development aid: evaluate the seeded changes an agent left in /tmp/seed/<ID>/ and file them under seeded/.
usage: seed_ingest.py <ID> [extra check ids...]"""
import json, os, re, shutil, subprocess, sys
HERE = os.path.dirname(os.path.dirname(os.path.abspath(__file__)))
pid = sys.argv[1]
extra = sys.argv[2:]
src = os.path.join(os.environ.get('SEED_SRC', '/tmp/seed'), pid)
filed_as = dict(zip('AB', os.environ.get('SEED_LETTERS', 'AB')))    # round 2 is filed as C/D
notes = open(os.path.join(src, 'notes.md')).read() if os.path.exists(os.path.join(src, 'notes.md')) else ''
for letter in 'AB':
    patch = os.path.join(src, 'patch%s.diff' % letter)
    demo = os.path.join(src, 'demo%s.py' % letter)
    if not os.path.exists(patch):
        print('missing', patch); continue
    dest = os.path.join(HERE, 'seeded', '%s-%s' % (pid, filed_as[letter]))
    os.makedirs(dest, exist_ok=True)
    shutil.copy(patch, os.path.join(dest, 'patch.diff'))
    if os.path.exists(demo):
        shutil.copy(demo, os.path.join(dest, 'demo.py'))
    results = {}
    caught_by = []
    log = ''
    for tier, ids in (('quick', [pid] + extra), ('thorough', [pid])):
        if tier == 'thorough' and caught_by:
            break
        out = subprocess.run([os.path.join(HERE, 'tools', 'seedtest.sh'), patch, demo if os.path.exists(demo) else '-', tier] + ids,
                             capture_output=True, text=True).stdout
        log += '### tier=%s\n%s\n' % (tier, out)
        for match in re.finditer(r'^--- (C\d+) exit=(\d+)\s+(\d+) violation lines', out, re.M):
            results['%s/%s' % (match.group(1), tier)] = {'exit': int(match.group(2)), 'violation_lines': int(match.group(3))}
            if match.group(2) == '1':
                caught_by.append('%s (%s)' % (match.group(1), tier))
        tests = re.search(r'^(\d+ failed, \d+ passed)', out, re.M)
        demo_without = re.search(r'demo without patch: exit (\d+)', out)
        demo_with = re.search(r'demo with patch:\s+exit (\d+)', out)
    keys = re.findall(r'key=(\S+)', log)
    meta = {
        'id': '%s-%s' % (pid, filed_as[letter]), 'breaks_property': pid,
        'source': 'written by an independent sub-agent that saw only the property text and a scratch worktree',
        'needs_to_manifest': None,
        'confirmed': {
            'patch_applies_to_repo_head': 'PATCH DOES NOT APPLY' not in log,
            'repo_tests_with_patch': tests.group(1) if tests else None,
            'demo_exit_without_patch': int(demo_without.group(1)) if demo_without else None,
            'demo_exit_with_patch': int(demo_with.group(1)) if demo_with else None,
        },
        'what_was_run': 'tools/seedtest.sh (scratch worktree of /repo HEAD + patch, VERIF_REPO=<scratch>): ' + ', '.join(sorted(results)),
        'check_results': results, 'caught_by': caught_by, 'violation_keys_seen': sorted(set(keys))[:8],
    }
    section = re.search(r'(?is)(#+\s*(?:change\s*)?%s\b.*?)(?=\n#+\s*(?:change\s*)?%s\b|\Z)' % (letter, 'B' if letter == 'A' else 'ZZZ'), notes)
    meta['agent_notes_excerpt'] = (section.group(1) if section else notes)[:1800]
    needs = re.search(r'(?is)what is needed to manifest:?\**\s*(.*?)(?=\n\s*\n|\n#|\Z)', meta['agent_notes_excerpt'])
    meta['needs_to_manifest'] = ' '.join(needs.group(1).split())[:600] if needs else None
    json.dump(meta, open(os.path.join(dest, 'meta.json'), 'w'), indent=1)
    print('%s-%s: tests=%s demo %s->%s caught_by=%s keys=%s' % (pid, filed_as[letter], meta['confirmed']['repo_tests_with_patch'],
          meta['confirmed']['demo_exit_without_patch'], meta['confirmed']['demo_exit_with_patch'], caught_by, meta['violation_keys_seen'][:3]))
