#!/venv/bin/python
"""Development aid: give every open entry of a property a witness taken from the current exploration
(needed after a generator changed and index-based witnesses moved).  kf_refresh.py <ID> [tier]"""
import json, os, subprocess, sys, tempfile
HERE = os.path.dirname(os.path.dirname(os.path.abspath(__file__)))
sys.path.insert(0, HERE)
from vmon import core
prop = sys.argv[1]; tier = sys.argv[2] if len(sys.argv) > 2 else 'quick'
fd, path = tempfile.mkstemp(suffix='.json'); os.close(fd)
subprocess.run([os.path.join(HERE, 'vcheck'), prop, '--tier', tier, '--triage', '--emit-all', path], stdout=subprocess.DEVNULL)
observed = json.load(open(path)); os.unlink(path)
data = json.load(open(os.path.join(HERE, 'known_findings.json')))
n = 0
for entry in data['findings']:
    if entry['property'] != prop or entry['status'] != 'open':
        continue
    for key, case in observed.items():
        if core.key_matches(entry['key'], key):
            if entry.get('witness') != case:
                entry['witness'] = case; n += 1
            break
    else:
        print('no current witness for', entry['key'])
json.dump(data, open(os.path.join(HERE, 'known_findings.json'), 'w'), indent=1)
print('refreshed', n)
