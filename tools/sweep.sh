#!/bin/bash
# usage: tools/sweep.sh <tier> <ids...> ; env SEEDS="1 2 3"
tier=$1; shift
for id in "$@"; do for s in ${SEEDS:-1 2 3}; do
  echo "=== $id tier=$tier seed=$s"; VERIF_SEED=$s ./vcheck $id --tier $tier --triage 2>&1 | grep -E "^UNKNOWN|^INCONCLUSIVE|^C[0-9]+ tier" | cut -c1-260
done; done
