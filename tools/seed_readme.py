#!/venv/bin/python
"""Development aid: write seeded/README.md (which check catches which seeded change) from seeded/*/meta.json."""
import glob, json, os
HERE = os.path.dirname(os.path.dirname(os.path.abspath(__file__)))
rows = []
for path in sorted(glob.glob(os.path.join(HERE, 'seeded', '*', 'meta.json'))):
    rows.append(json.load(open(path)))
lines = [
    '# Seeded property-breaking changes', '',
    'Each directory holds one change to c0r0n3r/cryptoparser written by an independent sub-agent that was given only the',
    'property text and its own scratch git worktree of the repository (nothing from /verif). Every change still imports,',
    'passes the 637 baseline tests, and ships a demonstration (`demo.py`, exit 1 when the property is broken). A change',
    'is kept only after `tools/seedtest.sh` confirmed, in a fresh scratch worktree outside /repo and /verif: the patch',
    'applies to /repo HEAD, the test suite still passes, the demo exits 0 without and 1 with the patch. None of these',
    'changes is ever committed to /repo. `meta.json` records what the change needs to manifest and what was run.', '',
    'Re-evaluate: `tools/seed_ingest.py <ID>` (agent drop directory) or',
    '`tools/seedtest.sh seeded/<ID>-<A|B>/patch.diff seeded/<ID>-<A|B>/demo.py quick <check ids>`.', '',
    '| change | breaks | caught by | first violation keys | what it needs to manifest |', '|---|---|---|---|---|']
for row in rows:
    note = (row.get('needs_to_manifest') or '')
    if not note:
        text = row.get('agent_notes_excerpt', '')
        marker = text.find('needed to manifest')
        if marker < 0:
            marker = text.find('Needs to manifest')
        note = text[marker:marker + 260].split(':', 1)[-1] if marker >= 0 else ''
    note = ' '.join(note.split()).replace('|', '/')[:220]
    keys = '<br>'.join('`%s`' % key.replace('|', '\\|') for key in row.get('violation_keys_seen', [])[:2])
    lines.append('| %s | %s | %s | %s | %s |' % (row['id'], row['breaks_property'], ', '.join(row['caught_by']) or '**missed**', keys, note))
missed = [row['id'] for row in rows if not row['caught_by']]
lines += ['', '%d changes, %d caught, %d missed%s.' % (len(rows), len(rows) - len(missed), len(missed), (': ' + ', '.join(missed)) if missed else '')]
open(os.path.join(HERE, 'seeded', 'README.md'), 'w').write('\n'.join(lines) + '\n')
print(lines[-1])
