#!/venv/bin/python
"""Development aid: re-evaluate the seeded changes filed under seeded/ against the current /repo HEAD and checks, and
refresh the result fields of their meta.json.  usage: seed_recheck.py [ID ...]   (env JOBS=4)"""
import concurrent.futures, glob, json, os, re, subprocess, sys
HERE = os.path.dirname(os.path.dirname(os.path.abspath(__file__)))


def recheck(directory):
    meta_path = os.path.join(directory, 'meta.json')
    meta = json.load(open(meta_path))
    patch, demo = os.path.join(directory, 'patch.diff'), os.path.join(directory, 'demo.py')
    pid = meta['breaks_property']
    results, caught_by, log = {}, [], ''
    tests = demo_without = demo_with = None
    for tier in ('quick', 'thorough'):
        if tier == 'thorough' and caught_by:
            break
        ids = [pid] + (meta.get('extra_checks', []) if tier == 'quick' else [])    # checks of other properties the change also breaks
        out = subprocess.run([os.path.join(HERE, 'tools', 'seedtest.sh'), patch, demo if os.path.exists(demo) else '-', tier] + ids,
                             capture_output=True, text=True).stdout
        log += out
        for match in re.finditer(r'^--- (C\d+) exit=(\d+)\s+(\d+) violation lines', out, re.M):
            results['%s/%s' % (match.group(1), tier)] = {'exit': int(match.group(2)), 'violation_lines': int(match.group(3))}
            if match.group(2) == '1':
                caught_by.append('%s (%s)' % (match.group(1), tier))
        tests = re.search(r'^(\d+ failed, \d+ passed)', out, re.M) or tests
        demo_without = re.search(r'demo without patch: exit (\d+)', out) or demo_without
        demo_with = re.search(r'demo with patch:\s+exit (\d+)', out) or demo_with
    meta['confirmed'] = {
        'patch_applies_to_repo_head': 'PATCH DOES NOT APPLY' not in log,
        'repo_tests_with_patch': tests.group(1) if tests else None,
        'demo_exit_without_patch': int(demo_without.group(1)) if demo_without else None,
        'demo_exit_with_patch': int(demo_with.group(1)) if demo_with else None,
    }
    meta['what_was_run'] = 'tools/seedtest.sh (scratch worktree of /repo HEAD + patch, VERIF_REPO=<scratch>): ' + ', '.join(sorted(results))
    meta['check_results'], meta['caught_by'] = results, caught_by
    meta['violation_keys_seen'] = sorted(set(re.findall(r'key=(\S+)', log)))[:8]
    json.dump(meta, open(meta_path, 'w'), indent=1)
    return '%s: applies=%s tests=%s demo %s->%s caught_by=%s' % (
        meta['id'], meta['confirmed']['patch_applies_to_repo_head'], meta['confirmed']['repo_tests_with_patch'],
        meta['confirmed']['demo_exit_without_patch'], meta['confirmed']['demo_exit_with_patch'], caught_by)


wanted = sys.argv[1:]
directories = [d for d in sorted(glob.glob(os.path.join(HERE, 'seeded', 'C*-*')))
               if not wanted or os.path.basename(d) in wanted or os.path.basename(d).split('-')[0] in wanted]
with concurrent.futures.ThreadPoolExecutor(max_workers=int(os.environ.get('JOBS', '4'))) as pool:
    for line in pool.map(recheck, directories):
        print(line, flush=True)
