#!/venv/bin/python
"""Development aid: merge reviewed entries (from vcheck --emit-findings) into known_findings.json."""
import json, os, sys
HERE = os.path.dirname(os.path.dirname(os.path.abspath(__file__)))
path = os.path.join(HERE, 'known_findings.json')
data = json.load(open(path))
new = json.load(open(sys.argv[1]))
keys = {(e['property'], e['key']) for e in data['findings']}
added = 0
for entry in new:
    if (entry['property'], entry['key']) not in keys:
        data['findings'].append(entry); added += 1
data['findings'].sort(key=lambda e: (e['property'], e['status'], e['key']))
json.dump(data, open(path, 'w'), indent=1)
print('added', added, 'total', len(data['findings']))
