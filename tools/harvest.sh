#!/bin/bash
# Regenerates corpus/harvest.jsonl from the repository's own test-suite run under the entry-point monitor.
cd "$(dirname "$0")/.." || exit 1
REPO="${VERIF_REPO:-/repo}"
OUT="$(pwd)/corpus/harvest.jsonl"
cd "$REPO" && VERIF_HARVEST_OUT="$OUT" PYTHONPATH="/verif:$REPO" PYTHONDONTWRITEBYTECODE=1 /venv/bin/python -m pytest test -q -p no:cacheprovider -p vmon.harvest_plugin 2>&1 | tail -2
wc -l "$OUT"
