#!/usr/bin/env python3-vt
"""Validates MANIFEST.json and evidence/*.json against the schemas (run with python3-vt)."""
import glob, json, os, sys
import jsonschema
HERE = os.path.dirname(os.path.dirname(os.path.abspath(__file__)))
ok = True
def check(path, schema):
    global ok
    try:
        jsonschema.validate(json.load(open(path)), json.load(open(schema)))
        print('valid  ', os.path.relpath(path, HERE))
    except Exception as e:
        ok = False
        print('INVALID', os.path.relpath(path, HERE), str(e)[:300])
check(os.path.join(HERE, 'MANIFEST.json'), '/root/.vp/MANIFEST.schema.json')
for p in sorted(glob.glob(os.path.join(HERE, 'evidence', '*.json'))):
    check(p, '/root/.vp/EVIDENCE.schema.json')
for line in open(os.path.join(HERE, 'properties.jsonl')):
    jsonschema.validate(json.loads(line), json.load(open('/root/.vp/PROPERTIES.schema.json')))
sys.exit(0 if ok else 1)
