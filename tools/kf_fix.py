#!/venv/bin/python
"""Development aid: mark open entries as fixed.  kf_fix.py <commit> <key> [<key> ...]"""
import json, os, sys
HERE = os.path.dirname(os.path.dirname(os.path.abspath(__file__)))
path = os.path.join(HERE, 'known_findings.json')
data = json.load(open(path))
commit = sys.argv[1]
n = 0
for entry in data['findings']:
    if entry['key'] in sys.argv[2:] and entry['status'] == 'open':
        entry['status'] = 'fixed'; entry['commit'] = commit
        entry['what'] = 'fixed: property=%s %s %s' % (entry['property'], commit, entry['what'])
        n += 1
data['findings'].sort(key=lambda e: (e['property'], e['status'], e['key']))
json.dump(data, open(path, 'w'), indent=1)
print('marked fixed:', n)
