#!/bin/bash
# usage: tools/flush.sh <tier> <first seed> <last seed> <ids...>   - runs many seeds, prints every unknown key with its witness text
tier=$1; first=$2; last=$3; shift 3
export VERIF_EVIDENCE_DIR=${VERIF_EVIDENCE_DIR:-/tmp/ev_flush}; mkdir -p "$VERIF_EVIDENCE_DIR"
for s in $(seq $first $last); do for id in "$@"; do
  out=$(VERIF_SEED=$s ./vcheck $id --tier $tier 2>&1); code=$?
  echo "=== $id tier=$tier seed=$s exit=$code $(echo "$out" | tail -1 | cut -c1-120)"
  echo "$out" | grep -A2 '^VIOLATION' | grep 'key=\|what=' | cut -c1-400
  echo "$out" | grep '^INCONCLUSIVE' | cut -c1-300
done; done
