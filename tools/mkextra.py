#!/venv/bin/python
"""Development aid: write corpus/zz_extra.jsonl from the hand-written further values in vmon/gen/spelling.py (EXTRA_VALUES), so
that every corpus-driven check (C01-C05, C13, C14, C19) sees them too. Sorted after harvest.jsonl: existing seed indices stay."""
import json, os, sys
HERE = os.path.dirname(os.path.dirname(os.path.abspath(__file__)))
sys.path.insert(0, HERE)
from vmon import bootstrap, inventory
bootstrap.init()
from vmon.gen import spelling
lines = []
for name in sorted(spelling.EXTRA_VALUES):
    cls = inventory.resolve(name)
    for text in spelling.EXTRA_VALUES[name]:
        data = text.encode('ascii')
        try:
            cls.parse_exact_size(data)
            accepted = True
        except Exception:  # pylint: disable=broad-except
            accepted = False
        lines.append(json.dumps({'cls': name, 'hex': data.hex(), 'ok': accepted, 'source': 'vmon/gen/spelling.py EXTRA_VALUES'}))
for name in sorted(spelling.EDGE_INPUTS):
    cls = inventory.resolve(name)
    for data in spelling.EDGE_INPUTS[name]:
        try:
            cls.parse_exact_size(data)
            accepted = True
        except Exception:  # pylint: disable=broad-except
            accepted = False
        lines.append(json.dumps({'cls': name, 'hex': data.hex(), 'ok': accepted, 'source': 'vmon/gen/spelling.py EDGE_INPUTS'}))
with open(os.path.join(HERE, 'corpus', 'zz_extra.jsonl'), 'w') as handle:
    handle.write('\n'.join(lines) + '\n')
print(len(lines), 'entries,', sum('"ok": true' in line for line in lines), 'accepted')
