#!/venv/bin/python
"""Runs the repository's pinned test-suite with every verif guard OFF and compares with BASELINE.json stable_pass."""
import json, os, subprocess, sys, tempfile, xml.etree.ElementTree as ET
repo = os.environ.get('VERIF_REPO', '/repo')
base = json.load(open('/root/.vp/BASELINE.json'))
fd, path = tempfile.mkstemp(suffix='.xml'); os.close(fd)
env = {k: v for k, v in os.environ.items() if not k.startswith('C0R0N3R_') and not k.startswith('VERIF_')}
subprocess.run(['/venv/bin/python', '-m', 'pytest', '-ra', '-q', '-p', 'no:cacheprovider', '--timeout=900',
                '--continue-on-collection-errors', '--junitxml=' + path], cwd=repo, env=env,
               stdout=subprocess.DEVNULL, stderr=subprocess.DEVNULL)
passed = set()
for case in ET.parse(path).getroot().iter('testcase'):
    if not any(child.tag in ('failure', 'error', 'skipped') for child in case):
        passed.add('%s::%s' % (case.get('classname'), case.get('name')))
os.unlink(path)
stable = set(base['stable_pass'])
def norm(s):  # junit classname uses dots; stable list uses 'mod.Class::test'
    return s
missing = sorted(t for t in stable if t not in passed)
print('stable_pass: %d, passing now: %d, stable tests no longer passing: %d' % (len(stable), len(passed), len(missing)))
for t in missing[:20]: print('  LOST', t)
sys.exit(1 if missing else 0)
